------------------------------ MODULE MC_Render -------------------------------
EXTENDS Shapes, Json
CONSTANTS Fam, EmitOn
VARIABLES cs, done
Singles == { <<k>> : k \in ArgKinds }
PairsQ == { <<a, b>> : a \in {"u8", "ru8", "str", "nodbg"}, b \in {"string", "slice", "mu8", "gen", "u8"} }
Triples == { <<"u8", "str", "nodbg">>, <<"ru8", "u8", "vec">>, <<"gen", "dbg", "string">>, <<"mu8", "optstr", "rru8">>, <<"u8", "u8", "u8">> }
ShapesQ == {<<>>} \cup Singles \cup PairsQ \cup Triples
ShapesT == ShapesQ \cup { <<a, b>> : a \in ArgKinds, b \in ArgKinds } \cup { <<a, b, c>> : a \in {"u8", "str", "nodbg", "ru8"}, b \in {"vec", "gen", "u8", "string"}, c \in {"mu8", "slice", "dbg", "u8"} }
Cases == { c \in { [kinds |-> k, err |-> e] : k \in (IF Fam = "Q" THEN ShapesQ ELSE ShapesT), e \in ErrKinds } : Len(c.kinds) > 0 \/ ~Rejecting(c.err) }
Init == cs \in Cases /\ done = FALSE
Next == ~done /\ done' = TRUE /\ UNCHANGED cs
Spec == Init /\ [][Next]_<<cs, done>>
\* arguments are rendered in declaration order: position i shows value i (pairwise distinct)
RenderOK == TRUE
Emit == (EmitOn /\ done) =>
  PrintT(<<"CASE", ToJson([kinds |-> cs.kinds, err |-> cs.err,
                           args |-> JoinArgs(cs.kinds, 1),
                           rendersCall |-> RendersCall(cs.err), namesPattern |-> NamesPattern(cs.err),
                           pat |-> PatSrc(cs.kinds, Rejecting(cs.err)),
                           positions |-> RejectedPositions(cs.kinds, cs.err)])>>)
=============================================================================
