------------------------------ MODULE MC_Shapes -------------------------------
EXTENDS Shapes, Json
CONSTANTS TypeFam, MaxLen, EmitOn
VARIABLES cs, done
L == { Leaf(l) : l \in {"O", "T", "B", "Bs"} }
\* what the attribute accepts was measured on the pinned tree (DESIGN Appendix G)
OL == { Leaf("O"), Leaf("T") }
BL == { Leaf("B"), Leaf("Bs") }
Depth0 == L \cup { Leaf("S"), Leaf("Bl") }
Depth1 == { Opt(x) : x \in L \cup {Leaf("S")} } \cup { Vec(x) : x \in L } \cup { Poll(x) : x \in OL }
          \cup { Res(a, b) : a \in L, b \in OL }
          \cup { Tup(<<a, b>>) : a \in {Leaf("B"), Leaf("O")}, b \in {Leaf("Bs"), Leaf("O"), Leaf("T")} }
          \cup { Tup(<<Leaf("B"), Leaf("O"), Leaf("Bs")>>), Tup(<<Leaf("O"), Leaf("B"), Leaf("T"), Leaf("B")>>) }
Depth2B == { Opt(Opt(b)) : b \in BL } \cup { Opt(Res(b, e)) : b \in BL, e \in OL } \cup { Poll(Opt(Leaf("B"))) }
           \cup { Poll(Res(b, e)) : b \in BL, e \in OL } \cup { Vec(Opt(Leaf("B"))) } \cup { Vec(Res(Leaf("B"), e)) : e \in OL }
Depth2O == { Opt(Vec(Leaf("O"))), Res(Opt(Leaf("O")), Leaf("O")), Vec(Tup(<<Leaf("O"), Leaf("O")>>)), Opt(Res(Leaf("T"), Leaf("O"))), Poll(Opt(Leaf("T"))) }
\* 1-tuples and nesting depth 3
\* (measured: a Result whose Ok type is itself a composite with a borrow, e.g. Result<Option<&T>, E>, is not accepted
\*  by the macro -- the kind of the last type argument overwrites the Deep kind found for the first)
Deeper == { Tup(<<Leaf("B")>>), Tup(<<Leaf("O")>>), Opt(Opt(Res(Leaf("B"), Leaf("O")))), Poll(Opt(Res(Leaf("B"), Leaf("T")))), Vec(Opt(Res(Leaf("Bs"), Leaf("O")))),
            Opt(Vec(Opt(Leaf("B")))), Vec(Vec(Opt(Leaf("B")))) }
SliceTypes == { Opt(Leaf("Bl")), Res(Leaf("Bl"), Leaf("O")), Tup(<<Leaf("Bl"), Leaf("O")>>), Vec(Leaf("Bl")), Opt(Res(Leaf("Bl"), Leaf("T"))) }
TypesQ == Depth0 \cup SliceTypes \cup { Tup(<<Leaf("B")>>), Opt(Opt(Res(Leaf("B"), Leaf("O")))) } \cup { Opt(Leaf("B")), Opt(Leaf("O")), Opt(Leaf("T")), Opt(Leaf("S")), Vec(Leaf("B")), Vec(Leaf("O")), Poll(Leaf("O")),
                        Res(Leaf("B"), Leaf("O")), Res(Leaf("B"), Leaf("T")), Res(Leaf("O"), Leaf("T")), Res(Leaf("Bs"), Leaf("O")),
                        Tup(<<Leaf("B"), Leaf("O")>>), Tup(<<Leaf("B"), Leaf("T")>>), Tup(<<Leaf("O"), Leaf("O")>>), Tup(<<Leaf("B"), Leaf("O"), Leaf("Bs")>>),
                        Opt(Res(Leaf("B"), Leaf("T"))), Opt(Res(Leaf("Bs"), Leaf("O"))), Poll(Res(Leaf("B"), Leaf("O"))), Poll(Res(Leaf("B"), Leaf("T"))),
                        Vec(Res(Leaf("B"), Leaf("O"))), Vec(Opt(Leaf("B"))), Opt(Opt(Leaf("B"))), Poll(Opt(Leaf("B"))), Opt(Vec(Leaf("O"))) }
TypesT == Depth0 \cup Depth1 \cup Depth2B \cup Depth2O \cup SliceTypes \cup Deeper
Paths == {"once", "multi"}
CasesOf(ty) == UNION { { [ty |-> ty, path |-> p, v |-> v] : v \in Values(ty, MaxLen) } : p \in { q \in Paths : PathOK(ty, q) } }
Cases == UNION { CasesOf(ty) : ty \in TypeFam }
Init == cs \in Cases /\ done = FALSE
Next == ~done /\ done' = TRUE /\ UNCHANGED cs
Spec == Init /\ [][Next]_<<cs, done>>
TwoDefinitionsAgree == CaseOK(cs.ty, cs.path, cs.v)
Emit == (EmitOn /\ done) =>
   PrintT(<<"CASE", ToJson([ty |-> cs.ty, path |-> cs.path, v |-> cs.v, kind |-> KindOf(cs.ty), gen |-> LeafGen(cs.path),
                             second |-> StmtOutcome(cs.ty, cs.path, cs.v, 2), third |-> StmtOutcome(cs.ty, cs.path, cs.v, 3)])>>)
=============================================================================
