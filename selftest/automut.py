#!/usr/bin/env python3
"""automut.py — mechanical mutation sampling, complementing the hand-written seeded changes.

  automut.py gen  [--per-file N] [--seed S]           -> selftest/automut_cands.json
  automut.py run  --repo DIR --verif DIR [--ids a,b]  -> selftest/automut_results.json (in --verif)

`gen` enumerates single-token edits (comparison / boolean / arithmetic / constant flips, dropped
statements) in the run-time and macro sources and samples N per file.  `run` applies one edit at a
time to a *scratch* copy of the repository (never /repo), runs the repository's own test suite and,
for the edits the suite does not notice, the quick checks mapped to the edited file (cheapest
first, stopping at the first that reports a violation).  An edit the suite misses and no check
reports is listed for manual triage: either it is behaviour-preserving / outside every listed
property, or it is a gap to close."""
import json, os, random, re, subprocess, sys, time

VERIF = os.path.dirname(os.path.dirname(os.path.abspath(__file__)))

FILES = {
    "src/eval.rs": ["C07", "C01", "C02", "C04", "C08", "C12", "C15", "C16", "C19"],
    "src/fn_mocker.rs": ["C01", "C03", "C04", "C10", "C19"],
    "src/counter.rs": ["C03", "C02", "C10", "C04"],
    "src/call_pattern.rs": ["C01", "C02", "C10", "C12", "C19"],
    "src/assemble.rs": ["C14", "C18", "C04", "C01"],
    "src/build.rs": ["C02", "C03", "C14", "C04", "C12"],
    "src/teardown.rs": ["C09", "C11", "C03", "C08", "C13"],
    "src/state.rs": ["C10", "C04", "C08", "C19"],
    "src/lib.rs": ["C09", "C11", "C13", "C08", "C07", "C15"],
    "src/value_chain.rs": ["C13", "C09"],
    "src/default_impl_delegator.rs": ["C15", "C13", "C09"],
    "src/debug.rs": ["C19"],
    "src/error.rs": ["C19", "C03"],
    "src/mismatch.rs": ["C19"],
    "src/private.rs": ["C19", "C10", "C05", "C06"],
    "src/clause.rs": ["C14", "C18"],
    "src/output/owning.rs": ["C17", "C12", "C02"],
    "src/output/lending.rs": ["C17", "C13", "C02"],
    "src/output/static_ref.rs": ["C17"],
    "src/output/shallow.rs": ["C17", "C12"],
    "src/output/deep/mod.rs": ["C17", "C12"],
    "src/output/deep/option.rs": ["C17", "C12"],
    "src/output/deep/result.rs": ["C17", "C12"],
    "src/output/deep/vec.rs": ["C17", "C12"],
    "src/output/deep/poll.rs": ["C17", "C12"],
    "src/output/deep/tuples.rs": ["C17", "C12"],
    "unimock_macros/src/unimock/mod.rs": ["C05", "C19", "C15", "C16", "C17"],
    "unimock_macros/src/unimock/method.rs": ["C05", "C19", "C17", "C16"],
    "unimock_macros/src/unimock/attr.rs": ["C16", "C05"],
    "unimock_macros/src/unimock/output.rs": ["C17", "C05", "C12"],
    "unimock_macros/src/unimock/util.rs": ["C05", "C19"],
    "unimock_macros/src/unimock/trait_info.rs": ["C05", "C15", "C16"],
    "unimock_macros/src/matching/mod.rs": ["C06", "C19"],
}

OPS = [
    (r"==", "!="), (r"!=", "=="), (r"<=", "<"), (r">=", ">"), (r"(?<![<\-=])<(?![<=])(?=\s)", "<="), (r"(?<![>\-=])>(?![>=])(?=\s)", ">="),
    (r"&&", "||"), (r"(?<!move )(?<=[\w\)\]] )\|\|(?= )", "&&"), (r"\+ 1\b", "+ 0"), (r"- 1\b", "- 0"), (r"\+= 1\b", "+= 2"), (r"\btrue\b", "false"), (r"\bfalse\b", "true"),
    (r"\.is_some\(\)", ".is_none()"), (r"\.is_none\(\)", ".is_some()"), (r"\.is_empty\(\)", ".len() > 1"),
    (r"\bif !", "if "), (r"\.saturating_sub\(1\)", ".saturating_sub(0)"), (r"\.rev\(\)", ""), (r"\.skip\(1\)", ""),
    (r"\bOrdering::SeqCst\b", "Ordering::Relaxed"),
]


def candidates(repo):
    out = []
    for f in FILES:
        p = os.path.join(repo, f)
        if not os.path.exists(p):
            continue
        lines = open(p).read().split("\n")
        in_test = False
        in_raw = False
        for i, line in enumerate(lines):
            st = line.strip()
            if not in_raw and ('r#"' in line or ('r"' in line or 'concat!("' in line) and line.count('"') % 2 == 1):
                in_raw = True
                continue
            if in_raw:
                if '"#' in line or line.count('"') % 2 == 1:
                    in_raw = False
                continue
            if st.startswith("#[cfg(test)]") or st.startswith("#[test]") or st.startswith("mod tests") or st.startswith("mod test "):
                in_test = True
            if in_test or st.startswith("//") or st.startswith("#[") or st.startswith("use ") or "unimock_verif" in line or "cfg(" in line:
                continue
            code = line.split("//")[0]
            if '"' in code and ("panic!" in code or "write!" in code or "format" in code):
                continue
            for k, (pat, rep) in enumerate(OPS):
                for m in re.finditer(pat, code):
                    # skip generics / arrows / lifetimes for < >
                    if rep in ("<=", ">=") and (re.search(r"[A-Za-z_]\s*<|<\s*[A-Z']|->|=>|>\s*[({;,]|>$", code)):
                        continue
                    new = code[:m.start()] + rep + code[m.end():] + line[len(code):]
                    out.append({"file": f, "line": i + 1, "op": "%s->%s" % (pat, rep), "before": line, "after": new})
            # dropped statement: a line that is a complete call statement
            if re.match(r"^\s*[a-z_][\w\.]*(\.|::)[a-z_]\w*\(.*\);\s*$", code) and "let " not in code and "return" not in code:
                out.append({"file": f, "line": i + 1, "op": "drop-statement", "before": line, "after": re.match(r"^\s*", line).group(0) + "/* dropped */"})
    return out


def sh(cmd, cwd=None, timeout=3600, env=None):
    return subprocess.run(cmd, shell=True, cwd=cwd, capture_output=True, text=True, timeout=timeout, env=env)


def gen(args):
    per = int(args.get("--per-file", 6)); seed = int(args.get("--seed", 1))
    c = candidates("/repo")
    rnd = random.Random(seed)
    by = {}
    for x in c:
        by.setdefault(x["file"], []).append(x)
    pick = []
    for f in sorted(by):
        xs = by[f][:]
        rnd.shuffle(xs)
        pick += xs[:per]
    import hashlib
    for x in pick:
        x["id"] = "x" + hashlib.md5(("%s:%d:%s:%s" % (x["file"], x["line"], x["op"], x["after"])).encode()).hexdigest()[:7]
    json.dump(pick, open(os.path.join(VERIF, "selftest", "automut_cands.json"), "w"), indent=1)
    print(len(c), "candidates,", len(pick), "sampled")


def run(args):
    repo = args["--repo"]; verif = args["--verif"]
    assert os.path.realpath(repo) != "/repo", "never mutate /repo"
    cands = json.load(open(os.path.join(VERIF, "selftest", "automut_cands.json")))
    ids = set(args["--ids"].split(",")) if "--ids" in args else None
    resp = os.path.join(verif, "selftest", "automut_results.json")
    res = json.load(open(resp)) if os.path.exists(resp) else {}
    tdir = args.get("--target", os.path.join(os.path.dirname(repo), "automut_target"))
    done = {(r["file"], r["line"], r["op"], r["after"]) for r in res.values() if r.get("status") != "stale"}
    for c in cands:
        if ids and c["id"] not in ids or (not ids and (c["id"] in res or (c["file"], c["line"], c["op"], c["after"]) in done)):
            continue
        p = os.path.join(repo, c["file"])
        orig = open(p).read()
        lines = orig.split("\n")
        if lines[c["line"] - 1] != c["before"]:
            res[c["id"]] = dict(c, status="stale"); continue
        lines[c["line"] - 1] = c["after"]
        open(p, "w").write("\n".join(lines))
        rec = dict(c)
        try:
            t = time.time()
            b = sh("cargo nextest run --workspace --no-fail-fast --test-threads 8 --offline --target-dir %s 2>&1 | tail -5" % tdir, cwd=repo)
            rec["suite_s"] = round(time.time() - t)
            if "error: could not compile" in b.stdout or "error[" in b.stdout or "build failed" in b.stdout:
                rec["status"] = "does_not_compile"
            elif re.search(r"\b(\d+) failed", b.stdout) or "FAIL" in b.stdout:
                rec["status"] = "killed_by_tests"
            elif re.search(r"Summary.*\b(\d+) passed", b.stdout):
                rec["status"] = "survives_tests"
                rec["checks"] = {}
                todo = FILES[c["file"]]
                if args.get("--checks") == "all":
                    todo = todo + [x for x in ["C%02d" % i for i in range(1, 21)] if x not in todo]
                elif "--checks" in args:
                    todo = args["--checks"].split(",")
                for chk in todo:
                    t = time.time()
                    q = sh("bin/check %s --tier quick" % chk, cwd=verif, timeout=5400)
                    viol = [l for l in q.stdout.splitlines() if l.startswith("VIOLATION")]
                    rec["checks"][chk] = {"exit": q.returncode, "violations": len(viol), "wall_s": round(time.time() - t)}
                    if q.returncode == 1:
                        rec["status"] = "detected"; rec["detected_by"] = chk
                        break
                    if q.returncode not in (0, 1):
                        rec["checks"][chk]["tool_error"] = [l for l in q.stdout.splitlines() if "TOOL-ERROR" in l][:1]
                if rec["status"] == "survives_tests":
                    rec["status"] = "undetected"
            else:
                rec["status"] = "suite_unclear"; rec["tail"] = b.stdout[-400:]
        finally:
            open(p, "w").write(orig)
        res[c["id"]] = rec
        print(c["id"], c["file"], c["line"], c["op"], "->", rec["status"], rec.get("detected_by", ""), flush=True)
        json.dump(res, open(resp, "w"), indent=1, sort_keys=True)


if __name__ == "__main__":
    a = sys.argv[2:]
    args = {a[i]: a[i + 1] for i in range(0, len(a) - 1, 2)}
    {"gen": gen, "run": run}[sys.argv[1]](args)
