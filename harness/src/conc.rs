//! Controlled scheduler over the runtime's yield points (hook H2) and free-running stress.
//! Every execution is written as begin/end events in their true global order (one thread runs
//! at a time under the scheduler; under stress the order is that of a mutex-protected log),
//! followed by the verdict of verify() on the original. ConcTrace.tla decides whether the
//! execution is explainable by the specification.
use crate::replay::{payload_to_obs, Obs};
use crate::universe::*;
use crate::vals::*;
use serde_json::{json, Value};
use std::cell::Cell;
use std::io::Write;
use std::panic::{catch_unwind, AssertUnwindSafe};
use std::sync::{Arc, Condvar, Mutex, OnceLock};
use unimock::*;

struct SState {
    parked: Vec<bool>,
    done: Vec<bool>,
    turn: Option<usize>,
    yields: u64,
}
struct Sched {
    m: Mutex<SState>,
    cv: Condvar,
}
static SCHED: OnceLock<Sched> = OnceLock::new();
thread_local! {
    static TID: Cell<Option<usize>> = const { Cell::new(None) };
}
fn sched() -> &'static Sched {
    SCHED.get_or_init(|| Sched { m: Mutex::new(SState { parked: vec![], done: vec![], turn: None, yields: 0 }), cv: Condvar::new() })
}
fn yield_now(_tag: &'static str) {
    if let Some(tid) = TID.with(|t| t.get()) {
        let s = sched();
        let mut g = s.m.lock().unwrap();
        g.parked[tid] = true;
        g.yields += 1;
        s.cv.notify_all();
        while g.turn != Some(tid) {
            g = s.cv.wait(g).unwrap();
        }
        g.turn = None;
        g.parked[tid] = false;
        s.cv.notify_all();
    }
}
pub fn install() -> bool {
    unimock::verif::sync::install_yield_hook(yield_now)
}

fn matcher_labeled<F: MockFn>(label: &'static str) -> impl Fn(&mut unimock::private::Matching<F>)
where
    for<'i> F: MockFn<Inputs<'i> = u8>,
{
    move |m| {
        m.func(|_a: &u8, _| true);
        m.pat_debug(label, "conc", 1);
    }
}

/// spec field "once_shape": "tuple" -- the single-use response ("once") is a composite `(Tok, &Val, Tok)` whose
/// two owned leaves live in separate slots (method `tt` takes the place of `t0`)
pub static ONCE_TUPLE: std::sync::atomic::AtomicBool = std::sync::atomic::AtomicBool::new(false);
fn once_tuple() -> bool {
    ONCE_TUPLE.load(std::sync::atomic::Ordering::SeqCst)
}

/// The fixed mock of tla/Conc.tla.
pub fn conc_mock() -> Unimock {
    if once_tuple() {
        return Unimock::new((
            UMock::r0
                .each_call(&matcher_labeled::<UMock::r0>("(any)"))
                .returns(Val::new(111))
                .n_times(1)
                .then()
                .returns(Val::new(112))
                .n_times(1)
                .then()
                .returns(Val::new(113)),
            UMock::r1.next_call(&matcher_labeled::<UMock::r1>("(ordp1)")).returns(Val::new(211)),
            UMock::r1.next_call(&matcher_labeled::<UMock::r1>("(ordp2)")).returns(Val::new(311)),
            UMock::tt
                .some_call(&|m| {
                    m.func(|_, _| true);
                    m.pat_debug("(once)", "conc", 1);
                })
                .returns((Tok::new(411), Val::new(412), Tok::new(413))),
        ));
    }
    Unimock::new((
        UMock::r0
            .each_call(&matcher_labeled::<UMock::r0>("(any)"))
            .returns(Val::new(111))
            .n_times(1)
            .then()
            .returns(Val::new(112))
            .n_times(1)
            .then()
            .returns(Val::new(113)),
        UMock::r1.next_call(&matcher_labeled::<UMock::r1>("(ordp1)")).returns(Val::new(211)),
        UMock::r1.next_call(&matcher_labeled::<UMock::r1>("(ordp2)")).returns(Val::new(311)),
        UMock::t0.some_call(&matcher_labeled::<UMock::t0>("(once)")).returns(Tok::new(411)),
    ))
}

fn do_call(u: &Unimock, kind: &str) -> Value {
    let r = catch_unwind(AssertUnwindSafe(|| match kind {
        "any" => u.r0(0).id,
        "ord" => u.r1(0).id,
        "once" if once_tuple() => {
            let (a, b, c) = u.tt();
            // the caller that gets the value gets all of it
            if (a.id, b.id, c.id) == (411, 412, 413) { 411 } else { 0 }
        }
        "once" => u.t0(0).id,
        "unm" => u.r2(0).id,
        k => panic!("harness: unknown call kind {k}"),
    }));
    match r {
        Ok(id) => json!({"k": "ret", "id": id, "class": ""}),
        Err(p) => match payload_to_obs(p) {
            Obs::MockPanic { class, .. } => json!({"k": "panic", "id": 0, "class": class}),
            o => json!({"k": "panic", "id": 0, "class": format!("other:{o:?}")}),
        },
    }
}

fn verdict_of(orig: Unimock) -> Value {
    let r = catch_unwind(AssertUnwindSafe(move || orig.verify()));
    match r {
        Ok(()) => json!({"k": "silent", "reasons": 0, "unmet": [], "never": []}),
        Err(p) => {
            let msg = match payload_to_obs(p) {
                Obs::MockPanic { msg, .. } => msg,
                o => format!("{o:?}"),
            };
            let lines: Vec<&str> = msg.split('\n').collect();
            let mut unmet = vec![];
            let mut never = vec![];
            let mut reasons = 0;
            for l in &lines {
                if l.contains("was never called") {
                    for m in ["r0", "r1", "t0"] {
                        if l.contains(&format!("U::{m} ")) {
                            never.push(m);
                        }
                    }
                    if l.contains("U::tt ") {
                        never.push("t0");
                    }
                } else if l.contains(": Expected ") {
                    for k in ["any", "ordp1", "ordp2", "once"] {
                        if l.contains(&format!("({k})")) {
                            unmet.push(k);
                        }
                    }
                } else {
                    reasons += 1;
                }
            }
            unmet.sort();
            never.sort();
            json!({"k": "fail", "reasons": reasons, "unmet": unmet, "never": never})
        }
    }
}

type Log = Arc<Mutex<Vec<Value>>>;

type Body = Box<dyn FnOnce() + Send>;

/// A thread body calls this when its scheduled part is over: the scheduler stops waiting for it and
/// its further yield points are no-ops.
fn leave_schedule() {
    if let Some(tid) = TID.with(|t| t.get()) {
        let s = sched();
        let mut g = s.m.lock().unwrap();
        g.done[tid] = true;
        s.cv.notify_all();
        TID.with(|t| t.set(None));
    }
}

/// Run the thread bodies under the schedule prefix `choices` (then always the lowest enabled
/// thread, or a random one). Returns the number of options at each decision.
fn run_threads(bodies: Vec<Body>, choices: &[usize], scheduled: bool, rng: &mut dyn FnMut() -> u64, random: bool) -> Vec<usize> {
    let n = bodies.len();
    {
        let mut g = sched().m.lock().unwrap();
        g.parked = vec![false; n];
        g.done = vec![false; n];
        g.turn = None;
    }
    let mut handles = vec![];
    for (tid, body) in bodies.into_iter().enumerate() {
        handles.push(std::thread::spawn(move || {
            if scheduled {
                TID.with(|t| t.set(Some(tid)));
            }
            body();
            leave_schedule();
        }));
    }
    let mut options = vec![];
    if scheduled {
        let s = sched();
        let mut step = 0;
        loop {
            let mut g = s.m.lock().unwrap();
            while g.turn.is_some() || !(0..n).all(|i| g.parked[i] || g.done[i]) {
                g = s.cv.wait(g).unwrap();
            }
            let enabled: Vec<usize> = (0..n).filter(|i| g.parked[*i] && !g.done[*i]).collect();
            if enabled.is_empty() {
                break;
            }
            let c = if step < choices.len() {
                choices[step].min(enabled.len() - 1)
            } else if random {
                (rng() % enabled.len() as u64) as usize
            } else {
                0
            };
            options.push(enabled.len());
            g.turn = Some(enabled[c]);
            step += 1;
            s.cv.notify_all();
        }
    }
    for h in handles {
        let _ = h.join();
    }
    options
}

/// One execution of call programs on clones of the fixed mock.
fn execute(progs: &[Vec<String>], choices: &[usize], scheduled: bool, rng: &mut dyn FnMut() -> u64, random: bool) -> (Vec<Value>, Vec<usize>) {
    let orig = conc_mock();
    let log: Log = Arc::new(Mutex::new(vec![]));
    let mut bodies: Vec<Body> = vec![];
    for (tid, prog) in progs.iter().enumerate() {
        let u = orig.clone();
        let prog = prog.clone();
        let log = log.clone();
        bodies.push(Box::new(move || {
            for kind in &prog {
                yield_now("begin");
                log.lock().unwrap().push(json!({"ev": "begin", "t": tid + 1, "k": kind}));
                let out = do_call(&u, kind);
                log.lock().unwrap().push(json!({"ev": "end", "t": tid + 1, "out": out}));
            }
            drop(u);
        }));
    }
    let options = run_threads(bodies, choices, scheduled, rng, random);
    let mut ev = std::mem::take(&mut *log.lock().unwrap());
    ev.push(json!({"ev": "verify", "v": verdict_of(orig)}));
    (ev, options)
}

/// One execution of concurrent make_ref programs (progs[t] = number of values thread t lends)
/// through one shared instance.
fn execute_chain(progs: &[Vec<String>], choices: &[usize], scheduled: bool, rng: &mut dyn FnMut() -> u64, random: bool) -> (Vec<Value>, Vec<usize>) {
    // the lending method (tla/Chain.tla LentIds): responses 2901 x 1, then 2902, stored in the shared pattern
    reset_id(2901);
    reset_id(2902);
    let lends = progs.iter().flatten().filter(|k| k.as_str() == "l").count();
    let shared = Arc::new(if lends > 0 {
        Unimock::new(UMock::b0.each_call(&matcher_labeled::<UMock::b0>("(lent)")).returns(Val::new(2901)).n_times(1).then().returns(Val::new(2902)))
    } else {
        Unimock::new(())
    });
    let log: Log = Arc::new(Mutex::new(vec![]));
    let gate = Arc::new(std::sync::Barrier::new(progs.len()));
    let mut ids: Vec<u32> = vec![];
    let mut bodies: Vec<Body> = vec![];
    // phase 1: all pushes; phase 2 (after join): re-reads happen inside the same thread body after a
    // second scheduling point, so that every reference is re-read after everybody has finished pushing

    for (tid, prog) in progs.iter().enumerate() {
        let u = shared.clone();
        let log = log.clone();
        let gate = gate.clone();
        let k = prog.len() as u32;
        for j in 1..=k {
            let id = 3000 + (tid as u32 + 1) * 1000 + j;
            ids.push(id);
            reset_id(id);
        }
        let prog = prog.clone();
        bodies.push(Box::new(move || {
            let mut refs: Vec<(&Val, u32)> = vec![];
            let mut lrefs: Vec<&Val> = vec![];
            for j in 1..=k {
                let id = 3000 + (tid as u32 + 1) * 1000 + j;
                yield_now("begin");
                if prog[j as usize - 1] == "l" {
                    log.lock().unwrap().push(json!({"ev": "lbegin", "t": tid + 1}));
                    let r: &Val = u.b0(0);
                    log.lock().unwrap().push(json!({"ev": "lent", "t": tid + 1, "read": r.id}));
                    lrefs.push(r);
                    continue;
                }
                log.lock().unwrap().push(json!({"ev": "push", "t": tid + 1, "id": id}));
                let r: &Val = u.make_ref(Val::new(id));
                log.lock().unwrap().push(json!({"ev": "got", "t": tid + 1, "id": id, "read": r.id}));
                refs.push((r, id));
                // references obtained earlier must be unaffected by whatever was lent meanwhile
                if let Some((r0, id0)) = refs.iter().find(|(r, id)| r.id != *id) {
                    log.lock().unwrap().push(json!({"ev": "got", "t": tid + 1, "id": id0, "read": r0.id}));
                }
            }
            // everybody finishes pushing first (outside the schedule), then every reference is read again
            leave_schedule();
            gate.wait();
            let reads: Vec<u32> = refs.iter().map(|(r, _)| r.id).collect();
            log.lock().unwrap().push(json!({"ev": "reread", "t": tid + 1, "reads": reads}));
            let lreads: Vec<u32> = lrefs.iter().map(|r| r.id).collect();
            log.lock().unwrap().push(json!({"ev": "lreread", "t": tid + 1, "reads": lreads}));
            drop(lrefs);
            drop(refs);
            drop(u);
        }));
    }
    let options = run_threads(bodies, choices, scheduled, rng, random);
    let mut ev = std::mem::take(&mut *log.lock().unwrap());
    if lends > 0 {
        ids.push(2901);
        ids.push(2902);
    }
    let before: Vec<u32> = ids.iter().copied().filter(|id| drops0(*id) > 0).collect();
    let last = Arc::try_unwrap(shared).ok().expect("harness: shared instance still referenced");
    let _ = catch_unwind(AssertUnwindSafe(move || drop(last)));
    let after: Vec<u32> = ids.iter().copied().filter(|id| drops0(*id) > 0).collect();
    let twice: Vec<u32> = ids.iter().copied().filter(|id| drops0(*id) > 1).collect();
    ev.push(json!({"ev": "drops", "before": before, "after": after, "twice": twice}));
    (ev, options)
}

/// vh conc <spec.json> <trace.ndjson> <summary.json>
/// spec: {"mode": "dfs"|"random"|"free", "programs": [[["any","ord"],["ord"]], ...], "max_schedules": N, "runs": N, "seed": S}
pub fn run_conc(spec_path: &str, trace_path: &str, summary_path: &str) -> i32 {
    let spec: Value = serde_json::from_str(&std::fs::read_to_string(spec_path).expect("spec")).expect("spec json");
    let mode = spec["mode"].as_str().unwrap_or("dfs").to_string();
    let max_sched = spec["max_schedules"].as_u64().unwrap_or(20000);
    let runs = spec["runs"].as_u64().unwrap_or(200);
    let mut seed = spec["seed"].as_u64().unwrap_or(1).wrapping_mul(0x9E3779B97F4A7C15) | 1;
    let mut rng = move || {
        seed ^= seed << 13;
        seed ^= seed >> 7;
        seed ^= seed << 17;
        seed
    };
    let hook_ok = install();
    let chain = spec["kind"].as_str() == Some("chain");
    ONCE_TUPLE.store(spec["once_shape"].as_str() == Some("tuple"), std::sync::atomic::Ordering::SeqCst);
    let mut out = std::io::BufWriter::new(std::fs::File::create(trace_path).expect("trace file"));
    let mut x = 0u64;
    let mut per_prog = vec![];
    let mut total_yields = 0u64;
    for p in spec["programs"].as_array().expect("programs") {
        let progs: Vec<Vec<String>> = p.as_array().unwrap().iter().map(|t| t.as_array().unwrap().iter().map(|k| k.as_str().unwrap().to_string()).collect()).collect();
        let mut n_exec = 0u64;
        let mut complete = true;
        let y0 = sched().m.lock().unwrap().yields;
        match mode.as_str() {
            "dfs" => {
                let mut choices: Vec<usize> = vec![];
                loop {
                    let (ev, options) = if chain { execute_chain(&progs, &choices, true, &mut rng, false) } else { execute(&progs, &choices, true, &mut rng, false) };
                    x += 1;
                    n_exec += 1;
                    writeln!(out, "{}", json!({"ev": "reset", "x": x})).unwrap();
                    for e in ev {
                        writeln!(out, "{e}").unwrap();
                    }
                    // next schedule in depth-first order
                    let mut full: Vec<usize> = choices.clone();
                    full.resize(options.len(), 0);
                    let mut i = full.len();
                    let mut advanced = false;
                    while i > 0 {
                        i -= 1;
                        if full[i] + 1 < options[i] {
                            full[i] += 1;
                            full.truncate(i + 1);
                            advanced = true;
                            break;
                        }
                    }
                    if !advanced {
                        break;
                    }
                    choices = full;
                    if n_exec >= max_sched {
                        complete = false;
                        break;
                    }
                }
            }
            "random" | "free" => {
                complete = false;
                for _ in 0..runs {
                    let (ev, _) = if chain { execute_chain(&progs, &[], mode == "random", &mut rng, true) } else { execute(&progs, &[], mode == "random", &mut rng, true) };
                    x += 1;
                    n_exec += 1;
                    writeln!(out, "{}", json!({"ev": "reset", "x": x})).unwrap();
                    for e in ev {
                        writeln!(out, "{e}").unwrap();
                    }
                }
            }
            m => panic!("harness: unknown mode {m}"),
        }
        let y1 = sched().m.lock().unwrap().yields;
        total_yields += y1 - y0;
        per_prog.push(json!({"program": p, "executions": n_exec, "all_schedules": complete, "yield_points_hit": y1 - y0}));
    }
    out.flush().unwrap();
    let summary = json!({"mode": mode, "executions": x, "hook_installed": hook_ok, "yield_points_hit": total_yields, "programs": per_prog});
    std::fs::write(summary_path, serde_json::to_string_pretty(&summary).unwrap()).unwrap();
    if mode != "free" && total_yields == 0 {
        eprintln!("harness: no yield point was hit: hooks missing?");
        return 2;
    }
    0
}
