#!/usr/bin/env python3
"""run_seeded.py [ID ...] [--checks C01,C02] [--tier quick]
Applies each seeded change to /repo, runs the named checks (default: the mutant's own property),
undoes the change, and records exit codes in selftest/results.json. Never commits to /repo."""
import json, os, subprocess, sys, time
VERIF = os.path.dirname(os.path.dirname(os.path.abspath(__file__)))
RES = os.path.join(VERIF, "selftest", "results.json")

def sh(cmd, **kw):
    return subprocess.run(cmd, shell=True, capture_output=True, text=True, **kw)

def main():
    args = sys.argv[1:]
    checks = None; tier = "quick"; ids = []
    i = 0
    while i < len(args):
        if args[i] == "--checks": checks = args[i+1].split(","); i += 2
        elif args[i] == "--tier": tier = args[i+1]; i += 2
        else: ids.append(args[i]); i += 1
    if not ids:
        ids = sorted(os.listdir(os.path.join(VERIF, "seeded")))
    results = json.load(open(RES)) if os.path.exists(RES) else {}
    assert sh("git -C /repo status --porcelain").stdout.strip() == "", "/repo working tree not clean"
    for mid in ids:
        d = os.path.join(VERIF, "seeded", mid)
        meta = json.load(open(os.path.join(d, "meta.json")))
        todo = checks or meta.get("checks") or [meta["property"]]
        # the checks rewrite evidence/<id>.json: keep the evidence of the unchanged tree
        sh("rm -rf %s/work/evidence_keep && cp -r %s/evidence %s/work/evidence_keep" % (VERIF, VERIF, VERIF))
        r = sh("git -C /repo apply %s/patch.diff" % d)
        if r.returncode != 0:
            print(mid, "patch does not apply", r.stderr); continue
        try:
            for c in todo:
                t = time.time()
                p = sh("bin/check %s --tier %s" % (c, tier), cwd=VERIF)
                viol = [l for l in p.stdout.splitlines() if l.startswith("VIOLATION")]
                results.setdefault(mid, {})[c + ":" + tier] = {"exit": p.returncode, "violations": len(viol), "first": viol[:1],
                                                     "wall_s": round(time.time() - t, 1), "tool_error": [l for l in p.stdout.splitlines() if l.startswith("TOOL-ERROR")][:1]}
                print(mid, c, tier, "exit", p.returncode, "violations", len(viol), flush=True)
        finally:
            sh("git -C /repo checkout -- .")
            sh("cd %s && for f in work/evidence_keep/*.json; do cp $f evidence/; done" % VERIF)
        json.dump(results, open(RES, "w"), indent=1, sort_keys=True)
    assert sh("git -C /repo status --porcelain").stdout.strip() == ""

if __name__ == "__main__":
    main()
