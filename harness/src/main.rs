mod chain;
mod classify;
mod replay;
mod universe;
mod vals;

fn main() {
    let args: Vec<String> = std::env::args().collect();
    std::panic::set_hook(Box::new(|_| {}));
    let code = match args.get(1).map(|s| s.as_str()) {
        // vh replay <result.json> [--raw]   (behaviours on stdin)
        Some("replay") => {
            let out = args.get(2).expect("result path");
            let raw = args.iter().any(|a| a == "--raw");
            let stdin = std::io::stdin();
            let mut lock = stdin.lock();
            replay::run_replay(&mut lock, out, raw)
        }
        _ => {
            eprintln!("usage: vh replay <result.json> [--raw] < behaviours");
            2
        }
    };
    std::process::exit(code);
}
