SPECIFICATION MCSpec
CONSTANTS
  Method = {"r0", "r1", "r2"}
  Arg = {0, 1}
  HasDefault <- cHasDefault
  HasUnmock <- cHasUnmock
  PartialByDef <- cPartialByDef
  RetOwned <- cRetOwned
  Required <- cRequired
  HasMutexApi = TRUE
  MaxCalls = 3
  LeafFam <- C01Leaves
  MaxLeaves = 1
  StrictFam <- cStrictBoth
  ScriptFam <- cNoScripts
  UpFam <- cNoUp
  Vias <- cViaDrop
  EmitOn = TRUE
INVARIANTS FirstMatchOnly CountIsSelections KthResponse SingleDelivery OrderedPrefix SlotsOnlyByOrdered FallbackTable NoFabrication ErrorsRemembered VerdictIff Emit
CHECK_DEADLOCK FALSE
