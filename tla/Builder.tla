------------------------------- MODULE Builder -------------------------------
(***************************************************************************)
(* The builder API of unimock (src/build.rs) as data.                      *)
(*                                                                         *)
(* A terminal clause is written by the user as                             *)
(*    F.some_call|each_call|next_call(matcher) . resp . quant [.then() . resp . quant]*  *)
(* or F.stub(|each| { each.call(matcher) . resp . quant ... ; ... }).      *)
(* Here a *chain* is the sequence of (response, quantifier) segments of    *)
(* one pattern, a *leaf* is one terminal clause.                           *)
(*                                                                         *)
(* Two descriptions are given and compared (MC_Builder):                   *)
(*   - Run: what DynCallPatternBuilder does (running response index,       *)
(*     push_responder, quantify, then, the implicit quantifications);      *)
(*   - Governing / Expect: what the documentation / property C02, C03      *)
(*     say, with no index arithmetic.                                      *)
(***************************************************************************)
EXTENDS Naturals, Sequences, FiniteSets

Forms == {"some", "each", "next", "stub"}
Mode(form) == IF form = "next" THEN "ord" ELSE "any"

\* response kinds: "val" returns(v) | "default" returns_default() | "answer" answers(&f)
\*   | "answer_arc" | "panic" panics(msg) | "unmock" applies_unmocked() | "dflt" applies_default_impl()
RespKinds == {"val", "default", "answer", "answer_arc", "panic", "unmock", "dflt"}
\* quantifiers: "none" (left unquantified) | "once" | "n" (n_times(n)) | "atleast" (at_least_times(n))
Quants == {"none", "once", "n", "atleast"}

QN(s) == IF s.q = "none" THEN 0 ELSE IF s.q = "once" THEN 1 ELSE s.n

(***************************************************************************)
(* Type-state automaton of the builder: which chains rustc accepts.        *)
(*  clone = the method's return value type implements Clone                *)
(*  DefineResponse (some_call/next_call): returns(v) needs no Clone and    *)
(*     gives QuantifyReturnValue; once() keeps the single-use path,        *)
(*     n_times/at_least_times need T: Clone.                               *)
(*  DefineMultipleResponses (each_call, stub's call, after then()):        *)
(*     returns(v) needs T: Clone.                                          *)
(*  then() exists only on an Exact quantified response;                    *)
(*  at_least_times exists only for InAnyOrder.                             *)
(***************************************************************************)
FirstIsDefineResponse(form) == form \in {"some", "next"}

SegTypeChecks(form, i, s, clone) ==
  /\ (s.q = "atleast" => Mode(form) = "any")
  /\ (s.k = "val" /\ ~clone) => (i = 1 /\ FirstIsDefineResponse(form) /\ s.q \in {"none", "once"})

TypeChecks(form, chain, clone) ==
  /\ Len(chain) >= 1
  /\ \A i \in 1..(Len(chain) - 1) : chain[i].q \in {"once", "n"}        \* then() needs Exact
  /\ \A i \in 1..Len(chain) : SegTypeChecks(form, i, chain[i], clone)

\* the reasons the property statements list for rejection
MultiUseOfNonClone(form, chain, clone) ==
  \E i \in 1..Len(chain) : chain[i].k = "val" /\ ~clone /\
       ~(i = 1 /\ FirstIsDefineResponse(form) /\ chain[i].q \in {"none", "once"})
AtLeastInOrdered(form, chain) == Mode(form) = "ord" /\ \E i \in 1..Len(chain) : chain[i].q = "atleast"
ThenAfterInexact(chain) == \E i \in 1..(Len(chain) - 1) : chain[i].q \in {"none", "atleast"}

\* a returns(v) whose value is moved out (take()) instead of cloned: the QuantifyReturnValue path
\* left unquantified or quantified with once(), on a method whose output is owned.
SingleUse(form, i, s) == s.k = "val" /\ i = 1 /\ FirstIsDefineResponse(form) /\ s.q \in {"none", "once"}

(***************************************************************************)
(* Run: the index arithmetic of DynCallPatternBuilder / DynBuilderWrapper. *)
(***************************************************************************)
\* implicit quantifications applied when the clause is deconstructed:
\*  - QuantifyReturnValue used as a clause calls once()  (some_call/next_call . returns(v))
\*  - Quantify::deconstruct on an ordered pattern calls quantify(1, Exact)
Implicit(form, chain) ==
  LET last == chain[Len(chain)] IN
  IF last.q # "none" THEN "no"
  ELSE IF Len(chain) = 1 /\ last.k = "val" /\ FirstIsDefineResponse(form) THEN "once"
  ELSE IF Mode(form) = "ord" THEN "once"
  ELSE "no"

RECURSIVE RunFrom(_, _, _)
RunFrom(chain, i, st) ==
  IF i > Len(chain) THEN st
  ELSE LET s   == chain[i]
           st1 == IF i > 1 THEN [st EXCEPT !.ex = "plus1"] ELSE st                   \* then(): add_to_minimum(0, AtLeastPlusOne)
           st2 == [st1 EXCEPT !.resps = Append(@, [start |-> st1.idx, seg |-> i])]   \* push_responder at current index
           st3 == IF s.q = "none" THEN st2
                  ELSE [st2 EXCEPT !.min = @ + QN(s),
                                   !.ex = IF s.q = "atleast" THEN "atleast" ELSE "exact",
                                   !.idx = @ + QN(s)]                                \* quantify(times, exactness)
       IN RunFrom(chain, i + 1, st3)

Run(form, chain) ==
  LET st == RunFrom(chain, 1, [idx |-> 0, min |-> 0, ex |-> "atleast", resps |-> <<>>])
  IN IF Implicit(form, chain) = "once"
     THEN [st EXCEPT !.min = @ + 1, !.ex = "exact", !.idx = @ + 1]
     ELSE st

LowerBound(b) == IF b.ex = "plus1" THEN b.min + 1 ELSE b.min

\* find_responder_by_call_index: the responder with the greatest start <= p; on equal starts the
\* binary search may land on any of them -- core's binary_search_by makes no promise -- see LookupSet.
LookupSet(resps, p) ==
  LET S == { j \in 1..Len(resps) : resps[j].start <= p }
      mx == CHOOSE j \in S : \A l \in S : resps[l].start <= resps[j].start
  IN { j \in S : resps[j].start = resps[mx].start }
\* deterministic choice used by the runtime model: the last one among equal starts
Lookup(resps, p) ==
  LET S == LookupSet(resps, p) IN CHOOSE j \in S : \A l \in S : l <= j

(***************************************************************************)
(* The statement of C02 / C03, with no index arithmetic.                   *)
(***************************************************************************)
Norm(form, chain) ==
  IF Implicit(form, chain) = "once"
  THEN [chain EXCEPT ![Len(chain)] = [@ EXCEPT !.q = "once"]] ELSE chain
RECURSIVE Cum(_, _)
Cum(chain, i) == IF i = 0 THEN 0 ELSE Cum(chain, i - 1) + QN(chain[i])
Total(chain) == Cum(chain, Len(chain))
OpenEnded(chain) == chain[Len(chain)].q \in {"none", "atleast"}
\* is the k-th match (k >= 1) given a response by the statement?
GovDefined(chain, k) == k <= Total(chain) \/ OpenEnded(chain)
\* segment governing the k-th match
Governing(chain, k) ==
  LET S == { i \in 1..Len(chain) : Cum(chain, i) >= k }
  IN IF S # {} THEN CHOOSE i \in S : \A j \in S : i <= j ELSE Len(chain)
\* <<kind, n>>: "exactly n" | "at least n"
Expect(chain) ==
  LET last == chain[Len(chain)] IN
  CASE last.q \in {"once", "n"} -> <<"exactly", Total(chain)>>
    [] last.q = "atleast"       -> <<"atleast", Total(chain)>>
    [] OTHER                    -> IF Len(chain) > 1 THEN <<"atleast", Total(chain) + 1>> ELSE <<"atleast", 0>>

\* agreement of the two descriptions for one chain (checked for every chain of a family by MC_Builder)
ChainOK(form, chain) ==
  LET b == Run(form, chain)  c == Norm(form, chain) IN
  /\ \A k \in 1..(Total(c) + 3) : GovDefined(c, k) =>
        \* zero-length segments share their start index with the next one: the statement's
        \* "first i with n1+..+ni >= k" never selects them, and neither may the lookup
        LET g == Governing(c, k) IN
        /\ g \in { b.resps[j].seg : j \in LookupSet(b.resps, k - 1) }
        /\ b.resps[Lookup(b.resps, k - 1)].seg = g
  /\ LET e == Expect(c) IN
       /\ LowerBound(b) = e[2]
       /\ (e[1] = "exactly") = (b.ex = "exact")
=============================================================================
