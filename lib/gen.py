"""Generated programs: write a cargo crate under work/gen/<name>, build it against /repo, run it."""
import json, os, shutil, subprocess, time
import vf
from vf import ToolError, log

GEN = os.path.join(vf.VERIF, "gen")


def crate_dir(name):
    return os.path.join(vf.WORK, "gen", name)


def write_crate(name, main_rs, features=("mock-core", "mock-std"), extra_files=None, bins=None):
    d = crate_dir(name)
    shutil.rmtree(d, ignore_errors=True)
    os.makedirs(os.path.join(d, "src"), exist_ok=True)
    os.makedirs(os.path.join(d, ".cargo"), exist_ok=True)
    feats = ", ".join('"%s"' % f for f in features)
    extra_deps = ""
    if "mock-tokio-1" in features:
        extra_deps += 'tokio = { version = "1", features = ["full"] }\n'
    if "mock-futures-io-0-3" in features:
        extra_deps += 'futures-io = "0.3"\n'
    if "mock-embedded-hal-1" in features:
        extra_deps += 'embedded-hal = "1.0.0"\n'
    open(os.path.join(d, "Cargo.toml"), "w").write("""[package]
name = "%s"
version = "0.0.0"
edition = "2021"
publish = false

[workspace]

[dependencies]
unimock = { path = "../../../../repo", features = [%s] }
serde_json = "1"
%s
[profile.dev]
debug = 0
opt-level = 0
incremental = false
""" % (name, feats, extra_deps))
    open(os.path.join(d, ".cargo", "config.toml"), "w").write("""[net]
offline = true

[build]
target-dir = "../../target"
rustflags = ["--cfg", "unimock_verif", "--check-cfg", "cfg(unimock_verif)"]
""")
    shutil.copy("/repo/Cargo.lock", os.path.join(d, "Cargo.lock"))
    shutil.copy(os.path.join(GEN, "prelude.rs"), os.path.join(d, "src", "prelude.rs"))
    open(os.path.join(d, "src", "main.rs"), "w").write(main_rs)
    for rel, text in (extra_files or {}).items():
        p = os.path.join(d, rel)
        os.makedirs(os.path.dirname(p), exist_ok=True)
        open(p, "w").write(text)
    return d


def cargo(name, args, timeout=1800):
    d = crate_dir(name)
    env = dict(os.environ); env["CARGO_NET_OFFLINE"] = "true"
    return subprocess.run(["cargo"] + args, cwd=d, env=env, capture_output=True, text=True, timeout=timeout)


def check_errors(name, bin_name=None):
    """cargo check --message-format=json; returns list of (file, line, message) of errors."""
    args = ["check", "--offline", "--message-format=json"]
    if bin_name:
        args += ["--bin", bin_name]
    p = cargo(name, args)
    errs = []
    for line in p.stdout.splitlines():
        try:
            m = json.loads(line)
        except ValueError:
            continue
        if m.get("reason") != "compiler-message":
            continue
        msg = m["message"]
        if msg.get("level") != "error":
            continue
        spans = [s for s in msg.get("spans", []) if s.get("is_primary")] or msg.get("spans", [])
        for s in spans[:1]:
            errs.append((s["file_name"], s["line_start"], (msg.get("code") or {}).get("code"), msg["message"]))
        if not spans:
            errs.append((None, 0, (msg.get("code") or {}).get("code"), msg["message"]))
    return errs, p.returncode


def build_and_run(name, timeout=1800):
    t = time.time()
    p = cargo(name, ["build", "--offline"], timeout=timeout)
    if p.returncode != 0:
        return None, p.stderr
    exe = os.path.join(vf.WORK, "target", "debug", name)
    r = subprocess.run([exe], capture_output=True, text=True, timeout=timeout, cwd=crate_dir(name))
    if r.returncode not in (0,):
        return None, "generated program exited with %s: %s" % (r.returncode, r.stderr[-2000:])
    out = []
    for line in r.stdout.splitlines():
        if line.startswith("{"):
            try:
                out.append(json.loads(line))
            except ValueError:
                pass
    return out, "%.1fs" % (time.time() - t)


def tlc_cases(inst, name, marker="CASE", workers=4, timeout=900, simulate=None):
    """Run an emitting TLC instance and return the decoded JSON documents printed with <<marker, json>>."""
    r, outp, d = vf.run_tlc_to_file(inst, name, workers=workers, timeout=timeout, simulate=simulate)
    docs = []
    pre = '<<"%s", ' % marker
    with open(outp) as f:
        for line in f:
            if line.startswith(pre):
                lit = line.rstrip("\n")[len(pre):-2]
                docs.append(json.loads(json.loads(lit)))
    os.remove(outp)
    return r, docs
