------------------------------ MODULE MC_Forward ------------------------------
EXTENDS Shapes, Json
CONSTANTS Fam, EmitOn
VARIABLES cs, done
ParamListsQ == { <<>>, <<"u8">>, <<"str">>, <<"str", "u8">>, <<"str", "string", "ru8">>, <<"str", "vec", "u8">>, <<"tstr">>, <<"u8", "tstr", "mu8">>, <<"string">>, <<"mu8">>, <<"gen">>, <<"u8", "str">>, <<"ru8", "string">>, <<"mu8", "u8">>, <<"u8", "mvec">>, <<"mlvec">>, <<"u8", "mlvec", "str">>,
                 <<"slice", "vec">>, <<"u8", "string", "ru8">>, <<"str", "mu8", "u8">>, <<"optstr", "pair", "rru8">>, <<"gen", "u8", "str">>,
                 <<"u8", "string", "mu8", "str">>, <<"u8", "ru8", "str", "mvec", "u8">>, <<"vec", "u8", "slice", "string", "mu8">> }
ParamListsT == ParamListsQ \cup { <<a, b>> : a \in ParamKinds \ {"gen", "into"}, b \in ParamKinds \ {"into"} }
                \cup { <<a, b, c>> : a \in {"u8", "str", "mu8"}, b \in {"string", "ru8", "mvec", "gen"}, c \in {"u8", "slice", "pair"} }
AllShapes == { sh \in [recv : Recvs, params : (IF Fam = "Q" THEN ParamListsQ ELSE ParamListsT), ret : RetKinds, async : AsyncKinds, api : ApiForms] : ValidShape(sh) }
Init == cs \in AllShapes /\ done = FALSE
Next == ~done /\ done' = TRUE /\ UNCHANGED cs
Spec == Init /\ [][Next]_<<cs, done>>
\* the matcher sees a reference to exactly what the answer receives, position by position
ViewsAgree == \A i \in 1..Len(cs.params) : Forward(cs).matcher[i] = Forward(cs).answer[i]
Emit == (EmitOn /\ done) => PrintT(<<"CASE", ToJson([shape |-> cs, fwd |-> Forward(cs)])>>)
=============================================================================
