------------------------------ MODULE ConcTrace -------------------------------
(***************************************************************************)
(* Trace validation (code -> spec) for concurrent executions.              *)
(* The trace holds, in their true global order, one `begin` event per call *)
(* (before the call touches the mock) and one `end` event per call (after  *)
(* it returned or panicked, with what the caller observed), then the       *)
(* verdict of verify().  The internal linearization points are not logged: *)
(* TLC interleaves Conc.tla's internal steps of the calls in flight and    *)
(* must find an explanation for every observed outcome.                    *)
(* Many executions are concatenated, separated by `reset` events.          *)
(***************************************************************************)
EXTENDS Conc, Json, IOUtils, SequencesExt

Rec == ndJsonDeserialize(IOEnv.TRACE)
VARIABLE l
tvars == <<cvars, l>>

ASSUME TLCSet(1, 0)

TInit == CInit /\ l = 1
IsEv(e) == l <= Len(Rec) /\ Rec[l].ev = e
Adv == l' = l + 1

TReset ==
  /\ IsEv("reset") /\ Adv
  /\ cnt' = [k \in Keys |-> 0] /\ ord' = 0 /\ slotFull' = TRUE /\ reasons' = <<>>
  /\ pc' = [t \in Thread |-> "idle"] /\ kind' = [t \in Thread |-> "none"]
  /\ tmp' = [t \in Thread |-> 0] /\ got' = [t \in Thread |-> NoGot]
TBegin == IsEv("begin") /\ Adv /\ Begin(Rec[l].t, Rec[l].k)
TEnd ==
  /\ IsEv("end") /\ Adv
  /\ LET t == Rec[l].t  o == Rec[l].out IN
       /\ pc[t] \in {"ret", "errdone"}
       /\ Outcome(t).k = o.k /\ Outcome(t).id = o.id /\ Outcome(t).class = o.class
       /\ End(t)
TVerify ==
  /\ IsEv("verify") /\ Adv
  /\ \A t \in Thread : pc[t] = "idle"
  /\ LET v == Rec[l].v IN
       /\ Verdict.k = v.k /\ Verdict.reasons = v.reasons
       /\ Verdict.unmet = ToSet(v.unmet) /\ Verdict.never = ToSet(v.never)
  /\ UNCHANGED cvars
TInternal == (\E t \in Thread : Internal(t)) /\ UNCHANGED l

TNext == TReset \/ TBegin \/ TEnd \/ TVerify \/ TInternal
TSpec == TInit /\ [][TNext]_tvars

\* register 1 = highest trace position reached by any explored state
\* The register holds the highest trace position reached.  Validation asks whether SOME behaviour of the specification
\* explains the trace: once one has consumed every event nothing else needs exploring (the constraint turns FALSE), which
\* together with TLC's depth-first state queue makes an accepted trace cost about one path; a rejected one still costs
\* the whole reachable space of its executions.
Track == IF TLCGet(1) > Len(Rec) THEN FALSE ELSE (IF l > TLCGet(1) THEN TLCSet(1, l) ELSE TRUE)
Accepted ==
  IF TLCGet(1) = Len(Rec) + 1 THEN TRUE
  ELSE PrintT(<<"UNMATCHED", TLCGet(1), ToJson(Rec[TLCGet(1)])>>) /\ FALSE

\* the property-shaped invariants also hold along every explaining path
TraceSingleUse == \A t, u \in Thread : (t # u /\ got[t].took /\ got[u].took) => FALSE
T8 == 1..8
=============================================================================
