------------------------------- MODULE MC_Conc --------------------------------
(***************************************************************************)
(* Exhaustive interleavings of fixed thread programs over Conc.tla, with   *)
(* the property-shaped invariants of C10 / C12 / C08.                      *)
(***************************************************************************)
EXTENDS Conc
CONSTANTS Prog          \* [Thread -> Seq(Kinds)]
VARIABLES ip, results
mvars == <<cvars, ip, results>>

MInit == CInit /\ ip = [t \in Thread |-> 1] /\ results = <<>>
MBegin(t) == /\ ip[t] <= Len(Prog[t]) /\ Begin(t, Prog[t][ip[t]]) /\ UNCHANGED <<ip, results>>
MInternal(t) == Internal(t) /\ UNCHANGED <<ip, results>>
MEnd(t) == /\ results' = Append(results, [t |-> t, kind |-> kind[t], out |-> Outcome(t), slot |-> got[t].slot, pos |-> got[t].pos, key |-> got[t].key])
           /\ End(t) /\ ip' = [ip EXCEPT ![t] = @ + 1]
MNext == \E t \in Thread : MBegin(t) \/ MInternal(t) \/ MEnd(t)
MSpec == MInit /\ [][MNext]_mvars
\* results is an observation: the reachable shared states do not depend on it
View == <<cvars, ip, { results[j] : j \in 1..Len(results) }>>

Quiet == \A t \in Thread : pc[t] = "idle" /\ ip[t] > Len(Prog[t])
Res(P(_)) == { j \in 1..Len(results) : P(results[j]) }
NCalls(k) == Cardinality({ x \in UNION { { <<t, j>> : j \in 1..Len(Prog[t]) } : t \in Thread } : Prog[x[1]][x[2]] = k })
Min(a, b) == IF a < b THEN a ELSE b

\* C10: N concurrent matches of a pattern receive exactly the responses of positions 0..N-1;
\* N concurrent ordered calls occupy N distinct consecutive slots; nothing lost or counted twice
DistinctPositions == Quiet =>
   /\ { results[j].pos : j \in Res(LAMBDA r : r.kind = "any") } = 0..(NCalls("any") - 1)
   /\ Cardinality(Res(LAMBDA r : r.kind = "any")) = NCalls("any")
   /\ { results[j].slot : j \in Res(LAMBDA r : r.kind = "ord") } = 0..(NCalls("ord") - 1)
   /\ { results[j].slot : j \in Res(LAMBDA r : r.kind = "ord" /\ r.out.k = "ret") } = 0..(Min(NCalls("ord"), NSlots) - 1)
   /\ \A j \in Res(LAMBDA r : r.kind = "ord" /\ r.out.k = "ret") : results[j].pos = 0
   /\ cnt["any"] = NCalls("any") /\ ord = NCalls("ord") /\ cnt["once"] = NCalls("once")
   /\ cnt["ordp1"] = Min(NCalls("ord"), 1) /\ cnt["ordp2"] = (IF NCalls("ord") >= 2 THEN 1 ELSE 0)
\* the multiset of delivered responses of the unordered pattern = responses of positions 1..N
ResponsesArePositions == Quiet =>
   \A id \in {111, 112, 113} :
      Cardinality(Res(LAMBDA r : r.kind = "any" /\ r.out.id = id)) =
      Cardinality({ p \in 0..(NCalls("any") - 1) : RespAny(p) = id })
\* C12: at most one requester gets the single-use value; at quiescence exactly one if anybody asked
SingleDelivery ==
   /\ Cardinality(Res(LAMBDA r : r.kind = "once" /\ r.out.k = "ret")) <= 1
   /\ (Quiet /\ NCalls("once") > 0) => Cardinality(Res(LAMBDA r : r.kind = "once" /\ r.out.k = "ret")) = 1
\* C08: every mock-induced panic is in the shared error list
AllErrorsRecorded == Quiet => Len(reasons) = Cardinality(Res(LAMBDA r : r.out.k = "panic"))
\* C10: the verdict after joining equals the verdict of the same calls made sequentially (it only
\* depends on how many calls of each kind were made)
SeqVerdict ==
  LET na == NCalls("any") no == NCalls("ord") nn == NCalls("once") nu == NCalls("unm")
      nerr == nu + (IF no > NSlots THEN no - NSlots ELSE 0) + (IF nn > 1 THEN nn - 1 ELSE 0) IN
  IF nerr > 0 THEN [k |-> "fail", reasons |-> nerr, unmet |-> {}, never |-> {}]
  ELSE LET u == { x \in {<<"any", na >= 3>>, <<"ordp1", no >= 1>>, <<"ordp2", no >= 2>>, <<"once", nn = 1>>} : ~x[2] }
           nv == { m \in {"r0", "r1", "t0"} : CASE m = "r0" -> na = 0 [] m = "r1" -> no = 0 [] OTHER -> nn = 0 } IN
       IF u = {} /\ nv = {} THEN [k |-> "silent", reasons |-> 0, unmet |-> {}, never |-> {}]
       ELSE [k |-> "fail", reasons |-> 0, unmet |-> { x[1] : x \in u }, never |-> nv]
VerdictIsSequential == Quiet => Verdict = SeqVerdict

P21 == [t \in Thread |-> <<"any", "ord">>]
P3mix == [t \in Thread |-> IF t = 1 THEN <<"any", "ord">> ELSE IF t = 2 THEN <<"ord", "once">> ELSE <<"once", "any", "ord">>]
P2once == [t \in Thread |-> <<"once", "any">>]
P3one == [t \in Thread |-> IF t = 1 THEN <<"any">> ELSE IF t = 2 THEN <<"ord">> ELSE <<"unm">>]
P4one == [t \in Thread |-> IF t <= 2 THEN <<"any">> ELSE <<"ord">>]
P23 == [t \in Thread |-> IF t = 1 THEN <<"any", "any", "ord">> ELSE <<"ord", "any", "once">>]
T2 == {1, 2}
T3 == {1, 2, 3}
T4 == {1, 2, 3, 4}
=============================================================================
