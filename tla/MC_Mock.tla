------------------------------- MODULE MC_Mock -------------------------------
(***************************************************************************)
(* Bounded instances of Mock.tla.  One TLC run quantifies over             *)
(* configurations (chosen in Init from a family) and over call histories.  *)
(* Emitting instances print every complete behaviour as one JSON line for  *)
(* the replay harness.                                                     *)
(***************************************************************************)
EXTENDS Mock, Json

CONSTANTS
  LeafFam,      \* set of leaves configurations are built from
  MaxLeaves,
  StrictFam,    \* subset of BOOLEAN
  ScriptFam,    \* set of scripts (sequences of nested nodes) user code may run
  UpFam,        \* subset of BOOLEAN: may user code panic
  Vias,         \* final verification entry points
  EmitOn,       \* print behaviours
  OnlyMentioned, \* restrict top-level calls to methods some clause mentions (cuts uninteresting histories)
  StopAfterDeviation, \* no further calls once an ordered call deviated (C04 is silent about what follows)
  PoisonSet,    \* {} or {PoisonArg}: may calls carry the argument on which matchers panic
  PermOn        \* also choose an admissible reordering of the clauses (C18); the harness lists them in that order

Seg(k, q, n) == [k |-> k, q |-> q, n |-> n]
Pat(pred, chain) == [pred |-> pred, chain |-> chain]
Leaf(m, form, pats) == [m |-> m, form |-> form, pats |-> pats]
Leaf1(m, form, pred, chain) == Leaf(m, form, <<Pat(pred, chain)>>)
N0(m, a) == [m |-> m, a |-> a, sc |-> <<>>, up |-> FALSE]

SeqsUpTo(S, n) == UNION { [1..k -> S] : k \in 0..n }

Identity(n) == [i \in 1..n |-> i]
PermsFor(l) == IF PermOn THEN { p \in Perms(Len(l)) : Admissible(l, p) } ELSE { Identity(Len(l)) }
CfgFam == UNION { { [strict |-> s, leaves |-> l, perm |-> p] : p \in PermsFor(l) } : s \in StrictFam, l \in SeqsUpTo(LeafFam, MaxLeaves) }
\* C18 (model side): assembling any admissible reordering gives the same observable table
PermInvariantCfg == (PermOn /\ hist = <<>>) => PermInvariant(cfg.leaves)
NodeFam == [m : Method, a : Arg \cup PoisonSet, sc : ScriptFam, up : UpFam]

MCInit == \E c \in CfgFam : InitWith(c)
MCCall(node) ==
  /\ (OnlyMentioned => node.m \in DOMAIN tab)
  /\ (StopAfterDeviation => \A j \in 1..Len(OrdDisp) : ~Deviates(OrdDisp[j]))
  /\ Call(node)
  \* a default body runs on the delegation helper, which implements the required methods only
  /\ (node.sc # <<>> /\ WhoRuns(state, node.m, node.a) = "default") =>
        \A j \in 1..Len(node.sc) : node.sc[j].m \in Required
MCNext == (\E n \in NodeFam : MCCall(n)) \/ (\E via \in Vias : Finish(via))
MCSpec == MCInit /\ [][MCNext]_vars

\* ---- emission: one line per complete behaviour ----
StepOut(h) == IF h.op = "call"
              THEN [op |-> "call", m |-> h.node.m, a |-> h.node.a, sc |-> h.node.sc, up |-> h.node.up,
                    log |-> h.log, out |-> h.out]
              ELSE [op |-> "finish", via |-> h.via, v |-> h.v]
\* per configured returns(v): id, whether it is single-use, how often it was delivered
ValSegs == { <<o, g>> \in AllPats(tab) \X (1..6) : g <= Len(tab[o[1]].pats[o[2]].chain) /\ tab[o[1]].pats[o[2]].chain[g].k = "val" }
ValReport == { [id |-> ValId(tab[x[1][1]].pats[x[1][2]], x[2]),
                owned |-> RetOwned[x[1][1]],
                single |-> RetOwned[x[1][1]] /\ SingleUse(tab[x[1][1]].pats[x[1][2]].form, x[2], tab[x[1][1]].pats[x[1][2]].chain[x[2]]),
                delivered |-> Cardinality({ j \in 1..Len(AllDisp) : AllDisp[j].m = x[1][1] /\ AllDisp[j].sel = x[1][2]
                                              /\ AllDisp[j].seg = x[2] /\ AllDisp[j].d.k = "ret" })] : x \in ValSegs }
Beh == [strict |-> cfg.strict, leaves |-> cfg.leaves, perm |-> cfg.perm, new |-> newErr, offs |-> Offences(cfg.leaves, NoMutexFor),
        steps |-> [j \in 1..Len(hist) |-> StepOut(hist[j])],
        vals |-> IF phase = "done" THEN ValReport ELSE {}]
Emit == (EmitOn /\ phase \in {"done", "newerr"}) => PrintT(<<"REPLAY", ToJson(Beh)>>)

\* ---- universe facts (harness/src/universe.rs) ----
UMethods == {"r0", "r1", "r2", "d0", "d1", "t0", "b0"}
cHasDefault == [m \in Method |-> m \in {"d0", "d1"}]
cHasUnmock == [m \in Method |-> m \in {"r1", "d1"}]
cPartialByDef == [m \in Method |-> FALSE]
cRetOwned == [m \in Method |-> m # "b0"]
cRequired == Method \ {"d0", "d1"}
cNoPoison == {}
cPoison == {PoisonArg}
cStrictBoth == BOOLEAN
cStrictOnly == {TRUE}
cNoScripts == {<<>>}
cNoUp == {FALSE}
cViaDrop == {"drop"}

\* ---- menus ----
PredFam == SUBSET Arg

V(q, n) == Seg("val", q, n)
Open == <<V("none", 0)>>

\* ---------------- C01: first declared matching pattern ----------------
\* chains that get exhausted or over-matched, so that "no matter how often matched before" is exercised
C01Chains == { <<"each", Open>>, <<"some", Open>>, <<"each", <<V("n", 1)>> >>,
               <<"each", <<V("n", 1), V("none", 0)>> >>, <<"some", <<Seg("answer", "none", 0)>> >>,
               <<"each", <<V("atleast", 2)>> >> }
C01LeavesQ == { Leaf1("r0", c[1], p, c[2]) : c \in C01Chains, p \in PredFam }
               \cup { Leaf1("r1", "each", p, Open) : p \in {Arg, {}} }                   \* another method
               \cup { Leaf1("r2", "next", Arg, Open) }                                    \* ordered bystander
               \cup { Leaf("r0", "stub", <<Pat(p, Open), Pat(q, <<V("n", 1)>>)>>) : p, q \in {{0}, Arg} }
C01LeavesT == { Leaf1(m, c[1], p, c[2]) : m \in {"r0", "r1"}, c \in C01Chains, p \in PredFam }
               \cup { Leaf1("r2", "next", Arg, Open) }
               \cup { Leaf("r0", "stub", <<Pat(p, Open), Pat(q, <<V("n", 1)>>)>>) : p, q \in PredFam }
               \cup { Leaf("r0", "stub", <<Pat(p, <<V("n", 1)>>), Pat(q, Open), Pat(Arg, <<Seg("panic", "none", 0)>>)>>) : p, q \in PredFam }

\* a small family for three-clause configurations (simulation computes every initial state first)
C01Leaves3 == { Leaf1("r0", c[1], p, c[2]) : c \in {<<"each", Open>>, <<"some", Open>>, <<"each", <<V("n", 1), V("none", 0)>> >>}, p \in PredFam }
              \cup { Leaf1("r1", "each", Arg, Open), Leaf1("r1", "some", {0}, Open), Leaf1("r2", "next", Arg, Open) }

\* ---------------- C02: k-th response of a quantifier chain ----------------
KindsQ == {"val", "answer", "panic", "unmock"}
KindsT == {"val", "default", "answer", "answer_arc", "panic", "unmock", "dflt"}
ExactQs(N) == {<<"once", 0>>} \cup { <<"n", n>> : n \in N }
EndQs(N) == {<<"none", 0>>} \cup ExactQs(N) \cup { <<"atleast", n>> : n \in N }
Chains1(K, N) == { <<Seg(k, q[1], q[2])>> : k \in K, q \in EndQs(N) }
Chains2(K, N) == { <<Seg(k1, q1[1], q1[2]), Seg(k2, q2[1], q2[2])>> : k1 \in K, k2 \in K, q1 \in ExactQs(N), q2 \in EndQs(N) }
Chains3(K, N) == { <<Seg(k1, q1[1], q1[2]), Seg(k2, q2[1], q2[2]), Seg(k3, q3[1], q3[2])>> :
                     k1 \in K, k2 \in K, k3 \in K, q1 \in ExactQs(N), q2 \in ExactQs(N), q3 \in EndQs(N) }
WellTyped(m, form, chain) == TypeChecks(form, chain, m # "t0")
\* ---------------- C14 (feature set without a mutex API): which returns can be stored ----------------
C14MutexLeaves == { l \in { Leaf1(m, f, Arg, c) : m \in {"r0", "t0"}, f \in {"some", "next", "each"},
                                          c \in {Open, <<V("once", 0)>>, <<V("n", 2)>>, <<Seg("answer", "none", 0)>>, <<V("once", 0), Seg("answer", "none", 0)>>} } :
                           WellTyped(l.m, l.form, l.pats[1].chain) }
                  \cup { Leaf1("b0", f, Arg, Open) : f \in {"some", "each"} }
                  \cup { Leaf("r0", "stub", <<[pred |-> Arg, chain |-> Open]>>), Leaf("r0", "stub", <<[pred |-> Arg, chain |-> <<V("once", 0)>>]>>) }

C02Leaves(Ms, Fs, Cs) == { l \in { Leaf1(m, f, {0}, c) : m \in Ms, f \in Fs, c \in Cs } : WellTyped(l.m, l.form, l.pats[1].chain) }
C02LeavesQ == C02Leaves({"r1"}, Forms, Chains1(KindsQ, {0, 2}) \cup Chains2(KindsQ, {0, 2}))
              \cup C02Leaves({"t0"}, {"some", "next"}, Chains1({"val", "answer"}, {2}) \cup Chains2({"val", "answer", "panic"}, {1}))
C02LeavesT == C02Leaves({"r1"}, Forms, Chains1(KindsT, 0..3) \cup Chains2(KindsQ \cup {"default"}, {0, 1, 3}))
              \cup C02Leaves({"d1"}, {"each", "next"}, Chains1({"val", "dflt", "unmock", "answer_arc"}, {0, 2}))
              \cup C02Leaves({"r0"}, {"each", "next"}, Chains3({"val", "answer"}, {0, 1, 2}))
              \cup C02Leaves({"t0", "b0"}, Forms, Chains1({"val", "answer"}, 0..2) \cup Chains2({"val", "answer", "panic"}, {0, 2}))
\* chains of four and five segments (the responder search has inner boundaries only from the third segment on):
\* every call that is the first of an inner segment, the last of one, and the calls beyond the end
ChainsLong == { <<V(q1[1], q1[2]), V(q2[1], q2[2]), V(q3[1], q3[2]), V(q4[1], q4[2])>> :
                  q1 \in {<<"once", 0>>, <<"n", 2>>}, q2 \in {<<"once", 0>>, <<"n", 2>>}, q3 \in {<<"once", 0>>, <<"n", 2>>}, q4 \in {<<"none", 0>>, <<"n", 1>>} }
              \cup { <<V("n", 1), V("n", 1), V("n", 1), V("n", 1), V(q[1], q[2])>> : q \in {<<"none", 0>>, <<"atleast", 1>>} }
              \cup { <<V("n", 1), V("n", 0), V("n", 2), V("n", 1), V("none", 0)>>, <<V("n", 2), V("n", 1), V("n", 0), V("n", 0), V("n", 1)>> }
C02LeavesLong == C02Leaves({"r1"}, Forms, ChainsLong)

\* ---------------- C03: verdict iff unmet ----------------
C03Chains == { <<V("none", 0)>>, <<V("once", 0)>>, <<V("n", 0)>>, <<V("n", 2)>>, <<V("atleast", 1)>>, <<V("atleast", 2)>>,
               <<V("once", 0), V("none", 0)>>, <<V("n", 2), V("atleast", 1)>>, <<V("n", 0), V("none", 0)>> }
C03LeavesQ == { Leaf1(m, "each", p, c) : m \in {"r0", "r1"}, p \in {{0}, Arg}, c \in C03Chains }
              \cup { Leaf1("r0", "some", {1}, Open), Leaf1("r2", "next", {0}, <<V("n", 2)>>) }
              \cup { Leaf1("r1", "some", {0}, c) : c \in {<<V("atleast", 1)>>, <<V("n", 2)>>} }
C03LeavesT == { Leaf1(m, f, p, c) : m \in {"r0", "r1"}, f \in {"each", "some"}, p \in PredFam \ {{}}, c \in C03Chains }
              \cup { Leaf1("r2", "next", {0}, c) : c \in {<<V("n", 2)>>, Open, <<V("n", 1), V("n", 1)>>} }
              \cup { Leaf("r1", "stub", <<Pat({0}, c), Pat(Arg, d)>>) : c, d \in {<<V("n", 1)>>, <<V("atleast", 1)>>, Open} }

C03Leaves3 == { Leaf1(m, "each", p, c) : m \in {"r0", "r1"}, p \in {{0}, Arg}, c \in {<<V("n", 2)>>, <<V("atleast", 1)>>, <<V("once", 0), V("none", 0)>>} }
              \cup { Leaf1("r0", "some", {1}, Open), Leaf1("r2", "next", {0}, <<V("n", 2)>>) }

\* ---------------- C04: ordered sequence ----------------
C04Chains == { Open, <<V("n", 2)>>, <<V("n", 0)>>, <<V("n", 1), V("none", 0)>>, <<Seg("answer", "n", 2)>>, <<V("once", 0), Seg("panic", "once", 0)>> }
C04LeavesQ == { Leaf1("r0", "next", {0}, c) : c \in C04Chains \ {<<Seg("answer", "n", 2)>>} }
              \cup { Leaf1("r0", "next", Arg, Open) }
              \cup { Leaf1("r1", "next", {0}, c) : c \in {Open, <<V("n", 2)>>, <<V("n", 1), V("none", 0)>>} }
              \cup { Leaf1("r2", "each", Arg, Open), Leaf1("r2", "each", Arg, <<V("n", 1)>>) }   \* unordered bystanders, one exactly quantified
C04LeavesT == { Leaf1(m, "next", p, c) : m \in {"r0", "r1", "d0"}, p \in {{0}, {1}, Arg}, c \in C04Chains \cup {<<V("n", 3)>>, <<V("n", 1), V("n", 2)>>} }
              \cup { Leaf1("r2", f, Arg, Open) : f \in {"each", "some"} } \cup { Leaf1("r2", "each", Arg, <<V("n", 2)>>) }

\* ---------------- C07: unanswered calls ----------------
C07Leaves == { Leaf1(m, f, p, c) : m \in {"r0", "r1", "d0", "d1"}, f \in {"each", "next"}, p \in {{0}, {}},
                                   c \in {Open, <<Seg("unmock", "none", 0)>>, <<Seg("dflt", "none", 0)>>} }
             \cup { Leaf1("r2", "each", Arg, Open) }

\* ---------------- C08: every mock-induced error is remembered; user panics are not ----------------
C08Leaves == { Leaf1("r0", "each", {0}, <<Seg("panic", "none", 0)>>), Leaf1("r0", "some", {0}, Open),
               Leaf1("r0", "each", {0}, <<Seg("unmock", "none", 0)>>), Leaf1("r0", "each", {0}, <<Seg("dflt", "none", 0)>>),
               Leaf1("r0", "next", {0}, Open), Leaf("r0", "stub", <<[pred |-> {0}, chain |-> <<V("n", 1)>>]>>),
               Leaf1("r1", "each", Arg, <<Seg("answer", "none", 0)>>), Leaf1("r1", "each", Arg, <<Seg("unmock", "none", 0)>>),
               Leaf1("d0", "next", {1}, <<Seg("dflt", "none", 0)>>), Leaf1("r2", "each", {1}, Open) }

\* ---------------- C11 (second sentence): after a caught user panic the verdict reflects the calls actually matched ----------------
C11Leaves == { Leaf1(m, f, p, c) : m \in {"r0", "r1"}, f \in {"each", "next", "some"}, p \in {{0}, Arg}, c \in {Open, <<V("n", 2)>>, <<Seg("answer", "n", 1)>>} }

\* ---------------- C12: single-use values ----------------
C12Leaves == { Leaf1(m, f, p, c) : m \in {"t0", "r0"}, f \in {"some", "next"}, p \in {{0}, Arg},
                                   c \in {Open, <<V("once", 0)>>, <<V("once", 0), Seg("answer", "none", 0)>>, <<V("once", 0), Seg("panic", "n", 1)>>} }
             \cup { Leaf1("r0", f, Arg, c) : f \in {"some", "each"}, c \in {<<V("n", 2)>>, <<V("n", 1)>>, <<V("atleast", 1)>>} }
             \cup { Leaf1("b0", "some", Arg, Open), Leaf1("b0", "each", Arg, <<V("n", 2)>>) }

\* ---------------- C15 / C16: user code calling back into the mock ----------------
NestedFam(Ms) == { N0(m, a) : m \in Ms, a \in Arg }
Scripts(Ms, n) == SeqsUpTo(NestedFam(Ms), n)
C15Leaves == { Leaf1("d0", f, Arg, <<Seg("dflt", q[1], q[2])>>) : f \in {"each", "next"}, q \in {<<"none", 0>>, <<"n", 2>>} }
             \cup { Leaf1("r0", f, p, c) : f \in {"each", "next"}, p \in {{0}, Arg}, c \in {Open, <<V("n", 2)>>, <<V("n", 1), V("none", 0)>>} }
             \cup { Leaf1("r1", "next", Arg, Open), Leaf1("d1", "each", {0}, Open) }
C16Leaves == { Leaf1(m, f, p, <<Seg("unmock", q[1], q[2])>>) : m \in {"r1", "d1"}, f \in {"each", "next"}, p \in {{0}, Arg}, q \in {<<"none", 0>>, <<"n", 1>>} }
             \cup { Leaf1("r0", f, Arg, c) : f \in {"each", "next"}, c \in {Open, <<V("n", 2)>>} }
             \cup { Leaf1("r0", "each", Arg, <<Seg("unmock", "none", 0)>>), Leaf1("r1", "each", {1}, <<Seg("answer", "none", 0)>>) }
C15LeavesQ == { Leaf1("d0", "each", Arg, <<Seg("dflt", "none", 0)>>), Leaf1("d0", "next", Arg, <<Seg("dflt", "n", 2)>>) }
             \cup { Leaf1("r0", f, p, c) : f \in {"each", "next"}, p \in {{0}, Arg}, c \in {Open, <<V("n", 2)>>} }
             \cup { Leaf1("r1", "next", Arg, Open) }
C16LeavesQ == { Leaf1(m, f, {0}, <<Seg("unmock", "none", 0)>>) : m \in {"r1", "d1"}, f \in {"each", "next"} }
             \cup { Leaf1("r1", "each", Arg, <<Seg("unmock", "n", 1)>>), Leaf1("d1", "next", Arg, <<Seg("unmock", "n", 2)>>) }
             \cup { Leaf1("r0", "each", Arg, Open), Leaf1("r0", "next", Arg, <<V("n", 2)>>) }
             \cup { Leaf1("r0", "each", Arg, <<Seg("unmock", "none", 0)>>), Leaf1("r1", "each", {1}, <<Seg("answer", "none", 0)>>) }
\* ---------------- C18: layout independence ----------------
C18Leaves == { Leaf1(m, f, p, c) : m \in {"r0", "r1"}, f \in {"each", "next"}, p \in {{0}, Arg}, c \in {Open, <<V("n", 2)>>} }
             \cup { Leaf1("r2", "each", Arg, <<V("n", 1)>>), Leaf1("r2", "some", {1}, Open) }
             \cup { Leaf1(m, f, p, c) : m \in {"g8", "g16"}, f \in {"each", "next"}, p \in {{0}}, c \in {Open, <<V("n", 1)>>} }
C18LeavesQ == { Leaf1("r0", "each", {0}, Open), Leaf1("r0", "each", Arg, <<V("n", 2)>>), Leaf1("r1", "next", Arg, Open),
                Leaf1("r1", "next", {0}, <<V("n", 2)>>), Leaf1("r2", "each", Arg, <<V("n", 1)>>),
                Leaf1("g8", "each", {0}, Open), Leaf1("g16", "each", {0}, <<V("n", 1)>>), Leaf1("g8", "next", {0}, Open) }
cScriptsQ == Scripts({"r0"}, 2) \cup Scripts({"r1"}, 1)
cScriptsR1 == Scripts({"r0", "r1"}, 1)
cScripts1 == Scripts(Method \ {"t0", "b0"}, 1)
cScripts2 == Scripts({"r0", "r1"}, 2)
cScriptsReq2 == Scripts({"r0", "r1"}, 2)
\* depth-2 scripts: user code whose nested call runs user code again (recursion through the mock)
cScriptsDeep == {<<>>} \cup { <<[m |-> m, a |-> a, sc |-> sc, up |-> FALSE]>> : m \in {"r1", "d1"}, a \in Arg, sc \in Scripts({"r0", "r1"}, 1) }
cUpBoth == BOOLEAN
cViaAll == {"drop", "verify", "report"}
cViaVerify == {"verify"}
=============================================================================
