"""C15: default-method delegation for every receiver kind (generated traits)."""
RECV = {"ref": "&self", "mut": "&mut self", "own": "self", "rc": "self: std::rc::Rc<Self>", "arc": "self: std::sync::Arc<Self>", "pin": "self: std::pin::Pin<&mut Self>"}


def render(cases):
    L = ["mod prelude;", "use prelude::*;", "use unimock::*;", ""]
    exp = {}
    fns = []
    for n, c in enumerate(cases):
        sh, ex = c["shape"], c["exp"]
        recv, nreq = sh["recv"], sh["nreq"]
        gen_ = sh.get("generic", "none")
        tgen = "<K: 'static>" if gen_ == "trait" else ""          # generic trait
        mgen = "<X: 'static>" if gen_ == "method" else ""         # generic provided method
        xpar = ", _x: X" if gen_ == "method" else ""
        xarg = ", NoDbg(0)" if gen_ == "method" else ""
        xpat = ", _" if gen_ == "method" else ""
        wt_t = ".with_types::<u64>()" if gen_ == "trait" else ""   # every MockFn of a generic trait is generic
        wt_m = ".with_types::<NoDbg>()" if gen_ == "method" else wt_t
        tq = "Tr%d::<u64>::" % n if gen_ == "trait" else None      # calls on a generic trait name the instantiation
        calls = ["self.req%d(a + %d)" % (n, i) for i in range(nreq)]
        if sh.get("consume"):
            calls[-1] = "self.reqp%d(a + %d)" % (n, nreq - 1)       # required method taking the pointer by value: last use of self
        body = " + ".join(["1000u32"] + calls)
        L.append("#[unimock(api=M%d)]" % n)
        L.append("trait Tr%d%s {" % (n, tgen))
        L.append("    fn req%d(&self, x: u8) -> u32;" % n)
        if sh.get("consume"):
            L.append("    fn reqp%d(%s, x: u8) -> u32;" % (n, RECV[recv]))
        L.append("    fn dflt%d%s(%s, a: u8, b: &str%s) -> u32%s { rec_a(vec![sh(&a), sh(&b)]); %s }" % (n, mgen, RECV[recv], xpar, " where Self: Sized" if recv == "own" else "", body))
        L.append("}")
        reqs = ex["reqcalls"]
        clauses = []
        if sh.get("consume"):
            # the consuming required method is answered by its own counted pattern; the others lose one call
            reqs = reqs[:-1]
            clauses.append("M%d::reqp%d.each_call(matching!(_)).answers(&|_, x| x as u32 * 10).n_times(1)" % (n, n))
        if sh["explicit"]:
            clauses.append("M%d::dflt%d%s.each_call(matching!(5, \"s\"%s)).applies_default_impl().once()" % (n, n, wt_m, xpat))
        if reqs:
            if sh["ordered"]:
                clauses += ["M%d::req%d%s.next_call(matching!(%d)).returns(%du32)" % (n, n, wt_t, x, 10 * x) for x in reqs]
            else:
                clauses.append("M%d::req%d%s.each_call(matching!(_)).answers(&|_, x| x as u32 * 10).n_times(%d)" % (n, n, wt_t, len(reqs)))
        setup = "()" if not clauses else clauses[0] if len(clauses) == 1 else "(" + ", ".join(clauses) + ",)"
        cid = "d%d" % n
        mutu = "mut " if recv in ("mut", "pin") else ""
        L.append("fn %s() {" % cid)
        L.append("    let _ = take_a();")
        L.append("    let %su = Unimock::new(%s);" % (mutu, setup))
        L.append("    let mut direct: Vec<String> = vec![];")
        for _ in range(sh["direct"]):
            L.append("    direct.push(res_json(&observe(|| u.req%d(1), |r| r.to_string())));" % n)
        def call(target):
            """the provided method called on `target` (an expression of the receiver's type)"""
            if tq:
                return "%sdflt%d(%s, 5, \"s\"%s)" % (tq, n, target, xarg)
            return "%s.dflt%d(5, \"s\"%s)" % (target if not target.startswith("&") else "(%s)" % target, n, xarg)
        if recv == "ref":
            L.append("    let r = observe(|| %s, |r| r.to_string());" % call("&u" if tq else "u"))
        elif recv == "mut":
            L.append("    let r = observe(|| %s, |r| r.to_string());" % call("&mut u" if tq else "u"))
        elif recv == "own":
            L.append("    let r = observe(|| %s, |r| r.to_string());" % call("u"))
        elif recv == "pin":
            L.append("    let r = observe(|| %s, |r| r.to_string());" % call("std::pin::Pin::new(&mut u)"))
        else:
            ctor = "std::rc::Rc::new" if recv == "rc" else "std::sync::Arc::new"
            down = "std::rc::Rc::downgrade" if recv == "rc" else "std::sync::Arc::downgrade"
            if sh["shared"]:
                L.append("    let keep = %s(u);" % ctor)
                L.append("    let r = observe(|| %s, |r| r.to_string());" % call("keep.clone()"))
            elif sh.get("weak"):
                L.append("    let strong = %s(u);" % ctor)
                L.append("    let observer = %s(&strong);" % down)
                L.append("    let r = observe(|| %s, |r| r.to_string());" % call("strong"))
                L.append("    drop(observer);")
            else:
                L.append("    let r = observe(|| %s, |r| r.to_string());" % call("%s(u)" % ctor))
        L.append("    let a = take_a();")
        if recv in ("ref", "mut", "pin"):
            L.append("    let fin = observe(move || u.verify(), |_| \"silent\".to_string());")
        elif recv in ("rc", "arc") and sh["shared"]:
            L.append("    let fin = observe(move || drop(keep), |_| \"silent\".to_string());")
        else:
            L.append("    let fin: Result<String, String> = Ok(\"silent\".to_string());")
        L.append("    emit(\"%s\", vec![(\"r\", res_json(&r)), (\"a\", jlog(&a)), (\"direct\", format!(\"[{}]\", direct.join(\",\"))), (\"fin\", res_json(&fin))]);" % cid)
        L.append("}")
        fns.append(cid)
        exp[cid] = {"shape": sh, "sig": "%sfn dflt%s(%s, a: u8, b: &str%s) -> u32 { %s }" % ("trait Tr<K> :: " if tgen else "", mgen, RECV[recv], xpar, body), "setup": setup,
                    "ret": str(ex["ret"]), "body": [ex["body"]], "direct": [{"ok": "10"}] * sh["direct"]}
    L.append("fn main() {")
    L.append("    std::panic::set_hook(Box::new(|_| {}));")
    for f in fns:
        L.append("    %s();" % f)
    L.append("}")
    return "\n".join(L) + "\n", exp


def compare(exp, obs_lines):
    obs = {o["case"]: o for o in obs_lines}
    divs = []
    for cid, e in exp.items():
        o = obs.get(cid)
        if o is None:
            divs.append({"case": cid, "what": "case produced no observation", "expected": None, "observed": None, "exp": e})
            continue
        sh = e["shape"]
        desc = "%s; %s%s; mock built from %s" % (e["sig"], ("sole owner" if not sh["shared"] else "shared owner") + (" with a Weak observer" if sh.get("weak") else ""), ", explicit applies_default_impl()" if sh["explicit"] else "", e["setup"])
        want = {"r": {"ok": e["ret"]}, "a": e["body"], "direct": e["direct"], "fin": {"ok": "silent"}}
        got = {k: o.get(k) for k in want}
        if got != want:
            divs.append({"case": cid, "what": "default-method delegation did not run the trait's own body against the same mock [%s]" % desc, "expected": want, "observed": got, "exp": e})
    return divs
