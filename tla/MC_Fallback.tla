----------------------------- MODULE MC_Fallback ------------------------------
EXTENDS Shapes, Json
CONSTANTS EmitOn
VARIABLES cs, done
Init == cs \in FallbackShapes /\ done = FALSE
Next == ~done /\ done' = TRUE /\ UNCHANGED cs
Spec == Init /\ [][Next]_<<cs, done>>
\* the mock never fabricates a value: whatever is returned is the clause's, the default body's or the real function's
NoFabricationShape == FallbackExpected(cs).k = "ret" => FallbackExpected(cs).v \in {5000, 7000, 9000}
Emit == (EmitOn /\ done) => PrintT(<<"CASE", ToJson([shape |-> cs, exp |-> FallbackExpected(cs)])>>)
=============================================================================
