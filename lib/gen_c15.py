"""C15: default-method delegation for every receiver kind (generated traits)."""
RECV = {"ref": "&self", "mut": "&mut self", "own": "self", "rc": "self: std::rc::Rc<Self>", "arc": "self: std::sync::Arc<Self>", "pin": "self: std::pin::Pin<&mut Self>"}


def render(cases):
    L = ["mod prelude;", "use prelude::*;", "use unimock::*;", ""]
    exp = {}
    fns = []
    for n, c in enumerate(cases):
        sh, ex = c["shape"], c["exp"]
        recv, nreq = sh["recv"], sh["nreq"]
        calls = ["self.req%d(a + %d)" % (n, i) for i in range(nreq)]
        if sh.get("consume"):
            calls[-1] = "self.reqp%d(a + %d)" % (n, nreq - 1)       # required method taking the pointer by value: last use of self
        body = " + ".join(["1000u32"] + calls)
        L.append("#[unimock(api=M%d)]" % n)
        L.append("trait Tr%d {" % n)
        L.append("    fn req%d(&self, x: u8) -> u32;" % n)
        if sh.get("consume"):
            L.append("    fn reqp%d(%s, x: u8) -> u32;" % (n, RECV[recv]))
        L.append("    fn dflt%d(%s, a: u8, b: &str) -> u32%s { rec_a(vec![sh(&a), sh(&b)]); %s }" % (n, RECV[recv], " where Self: Sized" if recv == "own" else "", body))
        L.append("}")
        reqs = ex["reqcalls"]
        clauses = []
        if sh.get("consume"):
            # the consuming required method is answered by its own counted pattern; the others lose one call
            reqs = reqs[:-1]
            clauses.append("M%d::reqp%d.each_call(matching!(_)).answers(&|_, x| x as u32 * 10).n_times(1)" % (n, n))
        if sh["explicit"]:
            clauses.append("M%d::dflt%d.each_call(matching!(5, \"s\")).applies_default_impl().once()" % (n, n))
        if reqs:
            if sh["ordered"]:
                clauses += ["M%d::req%d.next_call(matching!(%d)).returns(%du32)" % (n, n, x, 10 * x) for x in reqs]
            else:
                clauses.append("M%d::req%d.each_call(matching!(_)).answers(&|_, x| x as u32 * 10).n_times(%d)" % (n, n, len(reqs)))
        setup = "()" if not clauses else clauses[0] if len(clauses) == 1 else "(" + ", ".join(clauses) + ",)"
        cid = "d%d" % n
        mutu = "mut " if recv in ("mut", "pin") else ""
        L.append("fn %s() {" % cid)
        L.append("    let _ = take_a();")
        L.append("    let %su = Unimock::new(%s);" % (mutu, setup))
        L.append("    let mut direct: Vec<String> = vec![];")
        for _ in range(sh["direct"]):
            L.append("    direct.push(res_json(&observe(|| u.req%d(1), |r| r.to_string())));" % n)
        if recv in ("ref", "mut", "own"):
            L.append("    let r = observe(|| u.dflt%d(5, \"s\"), |r| r.to_string());" % n)
        elif recv == "pin":
            L.append("    let r = observe(|| std::pin::Pin::new(&mut u).dflt%d(5, \"s\"), |r| r.to_string());" % n)
        else:
            ctor = "std::rc::Rc::new" if recv == "rc" else "std::sync::Arc::new"
            if sh["shared"]:
                L.append("    let keep = %s(u);" % ctor)
                L.append("    let r = observe(|| keep.clone().dflt%d(5, \"s\"), |r| r.to_string());" % n)
            else:
                L.append("    let r = observe(|| %s(u).dflt%d(5, \"s\"), |r| r.to_string());" % (ctor, n))
        L.append("    let a = take_a();")
        if recv in ("ref", "mut", "pin"):
            L.append("    let fin = observe(move || u.verify(), |_| \"silent\".to_string());")
        elif recv in ("rc", "arc") and sh["shared"]:
            L.append("    let fin = observe(move || drop(keep), |_| \"silent\".to_string());")
        else:
            L.append("    let fin: Result<String, String> = Ok(\"silent\".to_string());")
        L.append("    emit(\"%s\", vec![(\"r\", res_json(&r)), (\"a\", jlog(&a)), (\"direct\", format!(\"[{}]\", direct.join(\",\"))), (\"fin\", res_json(&fin))]);" % cid)
        L.append("}")
        fns.append(cid)
        exp[cid] = {"shape": sh, "sig": "fn dflt(%s, a: u8, b: &str) -> u32 { %s }" % (RECV[recv], body), "setup": setup,
                    "ret": str(ex["ret"]), "body": [ex["body"]], "direct": [{"ok": "10"}] * sh["direct"]}
    L.append("fn main() {")
    L.append("    std::panic::set_hook(Box::new(|_| {}));")
    for f in fns:
        L.append("    %s();" % f)
    L.append("}")
    return "\n".join(L) + "\n", exp


def compare(exp, obs_lines):
    obs = {o["case"]: o for o in obs_lines}
    divs = []
    for cid, e in exp.items():
        o = obs.get(cid)
        if o is None:
            divs.append({"case": cid, "what": "case produced no observation", "expected": None, "observed": None, "exp": e})
            continue
        sh = e["shape"]
        desc = "%s; %s%s; mock built from %s" % (e["sig"], "sole owner" if not sh["shared"] else "shared owner", ", explicit applies_default_impl()" if sh["explicit"] else "", e["setup"])
        want = {"r": {"ok": e["ret"]}, "a": e["body"], "direct": e["direct"], "fin": {"ok": "silent"}}
        got = {k: o.get(k) for k in want}
        if got != want:
            divs.append({"case": cid, "what": "default-method delegation did not run the trait's own body against the same mock [%s]" % desc, "expected": want, "observed": got, "exp": e})
    return divs
