// C20: bundled mocks (core / std / tokio / futures-io / embedded-hal) driven through upstream provided methods,
// side by side with plain structs playing the same script.  One JSON line per case.
mod prelude;
use prelude::*;
use std::collections::VecDeque;
use std::io::{self, BufRead, Read, Seek, SeekFrom, Write};
use std::sync::{Arc, Mutex};
use unimock::mock::core::fmt::{DebugMock, DisplayMock};
use unimock::mock::core::hash::HasherMock;
use unimock::mock::embedded_hal_1::delay::DelayNsMock;
use unimock::mock::std::error::ErrorMock;
use unimock::mock::std::io::{BufReadMock, ReadMock, SeekMock, WriteMock};
use unimock::*;

/// strict and partial mocks alternate: un-mocked provided methods must run the upstream body in both
static PARTIAL: std::sync::atomic::AtomicBool = std::sync::atomic::AtomicBool::new(false);
fn mk(clause: impl Clause) -> Unimock {
    if PARTIAL.load(std::sync::atomic::Ordering::SeqCst) {
        Unimock::new_partial(clause)
    } else {
        Unimock::new(clause)
    }
}

// ------------------------------------------------------------------ scripts
#[derive(Clone, Debug)]
enum Step {
    N(usize),       // transfer up to n bytes
    Interrupted,    // ErrorKind::Interrupted (upstream loops retry)
    Fail,           // another error
}
type Log = Arc<Mutex<Vec<String>>>;
type Script = Arc<Mutex<VecDeque<Step>>>;

struct Rng(u64);
impl Rng {
    fn next(&mut self) -> u64 {
        self.0 ^= self.0 << 13;
        self.0 ^= self.0 >> 7;
        self.0 ^= self.0 << 17;
        self.0
    }
    fn below(&mut self, n: u64) -> u64 {
        self.next() % n
    }
}
fn gen_script(rng: &mut Rng, len: usize) -> Vec<Step> {
    (0..len)
        .map(|_| match rng.below(10) {
            0 => Step::Interrupted,
            1 => Step::Fail,
            2 => Step::N(0),
            _ => Step::N(1 + rng.below(5) as usize),
        })
        .collect()
}
fn pop(s: &Script) -> Step {
    s.lock().unwrap().pop_front().unwrap_or(Step::N(0))
}
fn err_of(step: &Step) -> io::Error {
    match step {
        Step::Interrupted => io::Error::new(io::ErrorKind::Interrupted, "intr"),
        _ => io::Error::new(io::ErrorKind::Other, "fail"),
    }
}
fn show_res<T: std::fmt::Debug>(r: &io::Result<T>) -> String {
    match r {
        Ok(v) => format!("Ok({v:?})"),
        Err(e) => format!("Err({:?})", e.kind()),
    }
}

// ------------------------------------------------------------------ Write
fn write_step(script: &Script, log: &Log, buf: &[u8]) -> io::Result<usize> {
    log.lock().unwrap().push(format!("write({buf:?})"));
    match pop(script) {
        Step::N(n) => Ok(n.min(buf.len())),
        s => Err(err_of(&s)),
    }
}
struct PlainWriter(Script, Log);
impl Write for PlainWriter {
    fn write(&mut self, buf: &[u8]) -> io::Result<usize> {
        write_step(&self.0, &self.1, buf)
    }
    fn flush(&mut self) -> io::Result<()> {
        self.1.lock().unwrap().push("flush()".into());
        Ok(())
    }
}
fn mock_writer(script: Script, log: Log) -> Unimock {
    let (s1, l1, l2) = (script, log.clone(), log);
    mk((
        WriteMock::write.each_call(matching!(_)).answers_arc(Arc::new(move |_, buf| write_step(&s1, &l1, buf))),
        WriteMock::flush.each_call(matching!()).answers_arc(Arc::new(move |_| {
            l2.lock().unwrap().push("flush()".into());
            Ok(())
        })),
    ))
    .no_verify_in_drop()
}

// ------------------------------------------------------------------ Read
fn read_step(script: &Script, log: &Log, src: &Arc<Mutex<u8>>, buf: &mut [u8]) -> io::Result<usize> {
    log.lock().unwrap().push(format!("read(len={})", buf.len()));
    match pop(script) {
        Step::N(n) => {
            let n = n.min(buf.len());
            let mut c = src.lock().unwrap();
            for b in buf.iter_mut().take(n) {
                *b = b'a' + (*c % 26);
                *c += 1;
            }
            Ok(n)
        }
        s => Err(err_of(&s)),
    }
}
struct PlainReader(Script, Log, Arc<Mutex<u8>>);
impl Read for PlainReader {
    fn read(&mut self, buf: &mut [u8]) -> io::Result<usize> {
        read_step(&self.0, &self.1, &self.2, buf)
    }
}
fn mock_reader(script: Script, log: Log) -> Unimock {
    let src = Arc::new(Mutex::new(0u8));
    mk(ReadMock::read.each_call(matching!(_)).answers_arc(Arc::new(move |_, buf| read_step(&script, &log, &src, buf)))).no_verify_in_drop()
}

// ------------------------------------------------------------------ BufRead
struct BufState {
    chunks: VecDeque<Vec<u8>>,
    cur: Vec<u8>,
}
fn buf_chunks(rng: &mut Rng) -> VecDeque<Vec<u8>> {
    let n = 1 + rng.below(4);
    (0..n)
        .map(|_| {
            let len = 1 + rng.below(5);
            (0..len).map(|_| if rng.below(4) == 0 { b'\n' } else { b'a' + rng.below(5) as u8 }).collect()
        })
        .collect()
}
fn fill(st: &Mutex<BufState>, log: &Log) -> Vec<u8> {
    let mut g = st.lock().unwrap();
    if g.cur.is_empty() {
        if let Some(c) = g.chunks.pop_front() {
            g.cur = c;
        }
    }
    log.lock().unwrap().push(format!("fill_buf()->{:?}", g.cur));
    g.cur.clone()
}
fn consume(st: &Mutex<BufState>, log: &Log, amt: usize) {
    log.lock().unwrap().push(format!("consume({amt})"));
    let mut g = st.lock().unwrap();
    let amt = amt.min(g.cur.len());
    g.cur.drain(..amt);
}
struct PlainBuf(Arc<Mutex<BufState>>, Log, Vec<u8>);
impl Read for PlainBuf {
    fn read(&mut self, _buf: &mut [u8]) -> io::Result<usize> {
        Ok(0)
    }
}
impl BufRead for PlainBuf {
    fn fill_buf(&mut self) -> io::Result<&[u8]> {
        self.2 = fill(&self.0, &self.1);
        Ok(&self.2)
    }
    fn consume(&mut self, amt: usize) {
        consume(&self.0, &self.1, amt)
    }
}
fn mock_buf(st: Arc<Mutex<BufState>>, log: Log) -> Unimock {
    let (s1, l1, s2, l2) = (st.clone(), log.clone(), st, log);
    mk((
        BufReadMock::fill_buf.each_call(matching!()).answers_arc(Arc::new(move |u| {
            let v = fill(&s1, &l1);
            Ok(u.make_mut(v).as_slice())
        })),
        BufReadMock::consume.each_call(matching!(_)).answers_arc(Arc::new(move |_, amt| consume(&s2, &l2, amt))),
    ))
    .no_verify_in_drop()
}

// ------------------------------------------------------------------ Hasher / Seek / DelayNs / Display
struct PlainHasher(Log);
impl std::hash::Hasher for PlainHasher {
    fn finish(&self) -> u64 {
        self.0.lock().unwrap().push("finish()".into());
        99
    }
    fn write(&mut self, bytes: &[u8]) {
        self.0.lock().unwrap().push(format!("write({bytes:?})"));
    }
}
fn mock_hasher(log: Log) -> Unimock {
    let (l1, l2) = (log.clone(), log);
    mk((
        HasherMock::write.each_call(matching!(_)).answers_arc(Arc::new(move |_, bytes| l1.lock().unwrap().push(format!("write({bytes:?})")))),
        HasherMock::finish.each_call(matching!()).answers_arc(Arc::new(move |_| {
            l2.lock().unwrap().push("finish()".into());
            99
        })),
    ))
    .no_verify_in_drop()
}
struct PlainSeek(Log);
impl Seek for PlainSeek {
    fn seek(&mut self, pos: SeekFrom) -> io::Result<u64> {
        self.0.lock().unwrap().push(format!("seek({pos:?})"));
        Ok(7)
    }
}
fn mock_seek(log: Log) -> Unimock {
    mk(SeekMock::seek.each_call(matching!(_)).answers_arc(Arc::new(move |_, pos| {
        log.lock().unwrap().push(format!("seek({pos:?})"));
        Ok(7)
    })))
    .no_verify_in_drop()
}
struct PlainDelay(Log);
impl embedded_hal::delay::DelayNs for PlainDelay {
    fn delay_ns(&mut self, ns: u32) {
        self.0.lock().unwrap().push(format!("delay_ns({ns})"));
    }
}
fn mock_delay(log: Log) -> Unimock {
    mk(DelayNsMock::delay_ns.each_call(matching!(_)).answers_arc(Arc::new(move |_, ns| log.lock().unwrap().push(format!("delay_ns({ns})"))))).no_verify_in_drop()
}
struct PlainDisplay(String);
impl std::fmt::Display for PlainDisplay {
    fn fmt(&self, f: &mut std::fmt::Formatter<'_>) -> std::fmt::Result {
        f.pad(&self.0)
    }
}

fn newlog() -> Log {
    Arc::new(Mutex::new(vec![]))
}
fn take(l: &Log) -> Vec<String> {
    std::mem::take(&mut *l.lock().unwrap())
}
fn diff(case: &str, m: (String, Vec<String>), p: (String, Vec<String>)) {
    let equal = m == p;
    emit(
        case,
        vec![
            ("kind", jstr("diff")),
            ("equal", equal.to_string()),
            ("required_calls", m.1.len().to_string()),
            ("mock", jstr(&format!("{} {:?}", m.0, m.1))),
            ("plain", jstr(&format!("{} {:?}", p.0, p.1))),
        ],
    );
}
fn guarded<R>(f: impl FnOnce() -> R, show: impl FnOnce(R) -> String) -> String {
    match std::panic::catch_unwind(std::panic::AssertUnwindSafe(f)) {
        Ok(r) => show(r),
        Err(p) => format!("PANIC({})", panic_text(p)),
    }
}

// ------------------------------------------------------------------ tokio / futures-io mirrors
mod asyncio {
    use super::*;
    use std::pin::Pin;
    use std::task::{Context, Poll as P, Wake, Waker};
    struct W;
    impl Wake for W {
        fn wake(self: Arc<Self>) {}
    }
    fn with_cx<R>(f: impl FnOnce(&mut Context<'_>) -> R) -> R {
        let waker = Waker::from(Arc::new(W));
        let mut cx = Context::from_waker(&waker);
        f(&mut cx)
    }
    fn showp<T: std::fmt::Debug>(p: &P<io::Result<T>>) -> String {
        match p {
            P::Pending => "Pending".into(),
            P::Ready(r) => format!("Ready({})", show_res(r)),
        }
    }

    struct PlainTokio(Log);
    impl tokio::io::AsyncWrite for PlainTokio {
        fn poll_write(self: Pin<&mut Self>, _cx: &mut Context<'_>, buf: &[u8]) -> P<io::Result<usize>> {
            self.0.lock().unwrap().push(format!("poll_write({buf:?})"));
            P::Ready(Ok(buf.len().min(2)))
        }
        fn poll_flush(self: Pin<&mut Self>, _cx: &mut Context<'_>) -> P<io::Result<()>> {
            P::Ready(Ok(()))
        }
        fn poll_shutdown(self: Pin<&mut Self>, _cx: &mut Context<'_>) -> P<io::Result<()>> {
            P::Ready(Ok(()))
        }
    }
    struct PlainFut(Log);
    impl futures_io::AsyncWrite for PlainFut {
        fn poll_write(self: Pin<&mut Self>, _cx: &mut Context<'_>, buf: &[u8]) -> P<io::Result<usize>> {
            self.0.lock().unwrap().push(format!("poll_write({buf:?})"));
            P::Ready(Ok(buf.len().min(2)))
        }
        fn poll_flush(self: Pin<&mut Self>, _cx: &mut Context<'_>) -> P<io::Result<()>> {
            P::Ready(Ok(()))
        }
        fn poll_close(self: Pin<&mut Self>, _cx: &mut Context<'_>) -> P<io::Result<()>> {
            P::Ready(Ok(()))
        }
    }
    impl futures_io::AsyncRead for PlainFut {
        fn poll_read(self: Pin<&mut Self>, _cx: &mut Context<'_>, buf: &mut [u8]) -> P<io::Result<usize>> {
            self.0.lock().unwrap().push(format!("poll_read(len={})", buf.len()));
            if !buf.is_empty() {
                buf[0] = 42;
            }
            P::Ready(Ok(buf.len().min(1)))
        }
    }

    pub fn run(wire: &dyn Fn(&str, bool, String)) {
        use unimock::mock::futures_0_3::io as fmock;
        use unimock::mock::tokio_1::io as tmock;
        // ---- tokio: wiring of every required method
        {
            use tokio::io::{AsyncBufRead, AsyncRead, AsyncSeek, AsyncWrite};
            let mut m = Unimock::new(tmock::AsyncWriteMock::poll_write.next_call(matching!(_, [1, 2])).returns(P::Ready(Ok(2))));
            let r = guarded(|| with_cx(|cx| Pin::new(&mut m).poll_write(cx, &[1, 2])), |p| showp(&p));
            wire("wire:tokio::AsyncWrite::poll_write", r == "Ready(Ok(2))", r);
            let mut m = Unimock::new(tmock::AsyncWriteMock::poll_flush.next_call(matching!(_)).returns(P::Ready(Ok(()))));
            let r = guarded(|| with_cx(|cx| Pin::new(&mut m).poll_flush(cx)), |p| showp(&p));
            wire("wire:tokio::AsyncWrite::poll_flush", r == "Ready(Ok(()))", r);
            let mut m = Unimock::new(tmock::AsyncWriteMock::poll_shutdown.next_call(matching!(_)).returns(P::Pending));
            let r = guarded(|| with_cx(|cx| Pin::new(&mut m).poll_shutdown(cx)), |p| showp(&p));
            wire("wire:tokio::AsyncWrite::poll_shutdown", r == "Pending", r);
            let mut m = Unimock::new(tmock::AsyncReadMock::poll_read.next_call(matching!(_, _)).answers(&|_, _, buf| {
                buf.put_slice(&[7, 8]);
                P::Ready(Ok(()))
            }));
            let mut store = [0u8; 4];
            let mut rb = tokio::io::ReadBuf::new(&mut store);
            let r = guarded(|| with_cx(|cx| Pin::new(&mut m).poll_read(cx, &mut rb)), |p| showp(&p));
            wire("wire:tokio::AsyncRead::poll_read", r == "Ready(Ok(()))" && rb.filled() == [7, 8], format!("{r} {:?}", rb.filled()));
            let mut m = Unimock::new((
                tmock::AsyncBufReadMock::poll_fill_buf.next_call(matching!(_)).returns(P::Ready(Ok::<Vec<u8>, io::Error>(vec![5u8, 6]))),
                tmock::AsyncBufReadMock::consume.next_call(matching!(1)).returns(()),
            ));
            let r = guarded(|| { let v = with_cx(|cx| Pin::new(&mut m).poll_fill_buf(cx).map(|r| r.map(|s| s.to_vec()))); Pin::new(&mut m).consume(1); v }, |p| showp(&p));
            wire("wire:tokio::AsyncBufRead::poll_fill_buf", r == "Ready(Ok([5, 6]))", r.clone());
            wire("wire:tokio::AsyncBufRead::consume", r == "Ready(Ok([5, 6]))", r);
            let mut m = Unimock::new((
                tmock::AsyncSeekMock::start_seek.next_call(matching!(SeekFrom::Start(4))).returns(Ok(())),
                tmock::AsyncSeekMock::poll_complete.next_call(matching!(_)).returns(P::Ready(Ok(4))),
            ));
            let r = guarded(|| { let a = Pin::new(&mut m).start_seek(SeekFrom::Start(4)); let b = with_cx(|cx| Pin::new(&mut m).poll_complete(cx)); format!("{} {}", show_res(&a), showp(&b)) }, |s| s);
            wire("wire:tokio::AsyncSeek::start_seek", r == "Ok(()) Ready(Ok(4))", r.clone());
            wire("wire:tokio::AsyncSeek::poll_complete", r == "Ok(()) Ready(Ok(4))", r);
            // provided: poll_write_vectored / is_write_vectored run the upstream defaults over poll_write
            for partial in [false, true] {
                let (lm, lp) = (newlog(), newlog());
                let l1 = lm.clone();
                let clause = tmock::AsyncWriteMock::poll_write.each_call(matching!(_, _)).answers_arc(Arc::new(move |_, _, buf| {
                    l1.lock().unwrap().push(format!("poll_write({buf:?})"));
                    P::Ready(Ok(buf.len().min(2)))
                }));
                let mut m = if partial { Unimock::new_partial(clause) } else { Unimock::new(clause) }.no_verify_in_drop();
                let mut p = PlainTokio(lp.clone());
                let (e, a, b) = (vec![], vec![3u8, 4, 5], vec![6u8]);
                let bufs = [io::IoSlice::new(&e), io::IoSlice::new(&a), io::IoSlice::new(&b)];
                let rm = guarded(|| { let x = with_cx(|cx| Pin::new(&mut m).poll_write_vectored(cx, &bufs)); format!("{} {}", showp(&x), m.is_write_vectored()) }, |s| s);
                let rp = guarded(|| { let x = with_cx(|cx| Pin::new(&mut p).poll_write_vectored(cx, &bufs)); format!("{} {}", showp(&x), p.is_write_vectored()) }, |s| s);
                diff(&format!("tokio::AsyncWrite::poll_write_vectored#{}", partial as u8), (rm, take(&lm)), (rp, take(&lp)));
            }
        }
        // ---- futures-io
        {
            use futures_io::{AsyncBufRead, AsyncRead, AsyncSeek, AsyncWrite};
            let mut m = Unimock::new(fmock::AsyncWriteMock::poll_write.next_call(matching!(_, [1, 2])).returns(P::Ready(Ok(2))));
            let r = guarded(|| with_cx(|cx| Pin::new(&mut m).poll_write(cx, &[1, 2])), |p| showp(&p));
            wire("wire:futures::AsyncWrite::poll_write", r == "Ready(Ok(2))", r);
            let mut m = Unimock::new(fmock::AsyncWriteMock::poll_flush.next_call(matching!(_)).returns(P::Ready(Ok(()))));
            let r = guarded(|| with_cx(|cx| Pin::new(&mut m).poll_flush(cx)), |p| showp(&p));
            wire("wire:futures::AsyncWrite::poll_flush", r == "Ready(Ok(()))", r);
            let mut m = Unimock::new(fmock::AsyncWriteMock::poll_close.next_call(matching!(_)).returns(P::Pending));
            let r = guarded(|| with_cx(|cx| Pin::new(&mut m).poll_close(cx)), |p| showp(&p));
            wire("wire:futures::AsyncWrite::poll_close", r == "Pending", r);
            let mut m = Unimock::new(fmock::AsyncReadMock::poll_read.next_call(matching!(_, _)).answers(&|_, _, buf| {
                buf[0] = 9;
                P::Ready(Ok(1))
            }));
            let mut b = [0u8; 2];
            let r = guarded(|| with_cx(|cx| Pin::new(&mut m).poll_read(cx, &mut b)), |p| showp(&p));
            wire("wire:futures::AsyncRead::poll_read", r == "Ready(Ok(1))" && b[0] == 9, format!("{r} {b:?}"));
            let mut m = Unimock::new((
                fmock::AsyncBufReadMock::poll_fill_buf.next_call(matching!(_)).returns(P::Ready(Ok::<Vec<u8>, io::Error>(vec![5u8, 6]))),
                fmock::AsyncBufReadMock::consume.next_call(matching!(1)).returns(()),
            ));
            let r = guarded(|| { let v = with_cx(|cx| Pin::new(&mut m).poll_fill_buf(cx).map(|r| r.map(|s| s.to_vec()))); Pin::new(&mut m).consume(1); v }, |p| showp(&p));
            wire("wire:futures::AsyncBufRead::poll_fill_buf", r == "Ready(Ok([5, 6]))", r.clone());
            wire("wire:futures::AsyncBufRead::consume", r == "Ready(Ok([5, 6]))", r);
            let mut m = Unimock::new(fmock::AsyncSeekMock::poll_seek.next_call(matching!(_, SeekFrom::End(0))).returns(P::Ready(Ok(11))));
            let r = guarded(|| with_cx(|cx| Pin::new(&mut m).poll_seek(cx, SeekFrom::End(0))), |p| showp(&p));
            wire("wire:futures::AsyncSeek::poll_seek", r == "Ready(Ok(11))", r);
            for partial in [false, true] {
                let (lm, lp) = (newlog(), newlog());
                let (l1, l2) = (lm.clone(), lm.clone());
                let clause = (
                    fmock::AsyncWriteMock::poll_write.each_call(matching!(_, _)).answers_arc(Arc::new(move |_, _, buf| {
                        l1.lock().unwrap().push(format!("poll_write({buf:?})"));
                        P::Ready(Ok(buf.len().min(2)))
                    })),
                    fmock::AsyncReadMock::poll_read.each_call(matching!(_, _)).answers_arc(Arc::new(move |_, _, buf| {
                        l2.lock().unwrap().push(format!("poll_read(len={})", buf.len()));
                        if !buf.is_empty() {
                            buf[0] = 42;
                        }
                        P::Ready(Ok(buf.len().min(1)))
                    })),
                );
                let mut m = if partial { Unimock::new_partial(clause) } else { Unimock::new(clause) }.no_verify_in_drop();
                let mut p = PlainFut(lp.clone());
                let (e, a, b) = (vec![], vec![3u8, 4, 5], vec![6u8]);
                let bufs = [io::IoSlice::new(&e), io::IoSlice::new(&a), io::IoSlice::new(&b)];
                let rm = guarded(|| with_cx(|cx| Pin::new(&mut m).poll_write_vectored(cx, &bufs)), |x| showp(&x));
                let rp = guarded(|| with_cx(|cx| Pin::new(&mut p).poll_write_vectored(cx, &bufs)), |x| showp(&x));
                diff(&format!("futures::AsyncWrite::poll_write_vectored#{}", partial as u8), (rm, take(&lm)), (rp, take(&lp)));
                let run = |r: &mut dyn FnMut(&mut Context<'_>, &mut [io::IoSliceMut<'_>]) -> P<io::Result<usize>>| -> String {
                    let (mut e, mut a) = (vec![], vec![0u8; 3]);
                    let res = { let mut bufs = [io::IoSliceMut::new(&mut e), io::IoSliceMut::new(&mut a)]; with_cx(|cx| r(cx, &mut bufs)) };
                    format!("{} {:?}", showp(&res), a)
                };
                let rm = guarded(|| run(&mut |cx, bufs| Pin::new(&mut m).poll_read_vectored(cx, bufs)), |s| s);
                let rp = guarded(|| run(&mut |cx, bufs| Pin::new(&mut p).poll_read_vectored(cx, bufs)), |s| s);
                diff(&format!("futures::AsyncRead::poll_read_vectored#{}", partial as u8), (rm, take(&lm)), (rp, take(&lp)));
            }
        }
    }
}

// ------------------------------------------------------------------ embedded-hal: digital / i2c / pwm / spi
mod ehal {
    use super::*;
    use embedded_hal::digital::{self, InputPin, OutputPin, PinState, StatefulOutputPin};
    use embedded_hal::i2c::{self, I2c};
    use embedded_hal::pwm::{self, SetDutyCycle};
    use embedded_hal::spi::{self, SpiBus, SpiDevice};
    use unimock::mock::embedded_hal_1 as hm;

    /// error of the plain structs (the mock's error type is Unimock itself); only Ok / Err is compared
    #[derive(Debug)]
    pub struct PErr;
    impl digital::Error for PErr {
        fn kind(&self) -> digital::ErrorKind {
            digital::ErrorKind::Other
        }
    }
    impl i2c::Error for PErr {
        fn kind(&self) -> i2c::ErrorKind {
            i2c::ErrorKind::Other
        }
    }
    impl pwm::Error for PErr {
        fn kind(&self) -> pwm::ErrorKind {
            pwm::ErrorKind::Other
        }
    }
    impl spi::Error for PErr {
        fn kind(&self) -> spi::ErrorKind {
            spi::ErrorKind::Other
        }
    }
    type BScript = Arc<Mutex<VecDeque<bool>>>;
    fn ok_step(s: &BScript) -> bool {
        s.lock().unwrap().pop_front().unwrap_or(true)
    }
    fn bscript(rng: &mut Rng, n: usize) -> Vec<bool> {
        (0..n).map(|_| rng.below(5) != 0).collect()
    }
    fn merr() -> Unimock {
        Unimock::new(()).no_verify_in_drop()
    }
    fn shape<T: std::fmt::Debug, E>(r: &Result<T, E>) -> String {
        match r {
            Ok(v) => format!("Ok({v:?})"),
            Err(_) => "Err".to_string(),
        }
    }
    fn rec(log: &Log, s: String) {
        log.lock().unwrap().push(s);
    }

    // ---- digital
    struct PlainPin(BScript, Log, bool);
    impl digital::ErrorType for PlainPin {
        type Error = PErr;
    }
    fn pin_unit(s: &BScript, log: &Log, what: &str) -> bool {
        rec(log, format!("{what}()"));
        ok_step(s)
    }
    impl OutputPin for PlainPin {
        fn set_low(&mut self) -> Result<(), PErr> {
            if pin_unit(&self.0, &self.1, "set_low") { Ok(()) } else { Err(PErr) }
        }
        fn set_high(&mut self) -> Result<(), PErr> {
            if pin_unit(&self.0, &self.1, "set_high") { Ok(()) } else { Err(PErr) }
        }
    }
    impl StatefulOutputPin for PlainPin {
        fn is_set_high(&mut self) -> Result<bool, PErr> {
            if pin_unit(&self.0, &self.1, "is_set_high") { Ok(!self.2) } else { Err(PErr) }
        }
        fn is_set_low(&mut self) -> Result<bool, PErr> {
            if pin_unit(&self.0, &self.1, "is_set_low") { Ok(self.2) } else { Err(PErr) }
        }
    }
    fn mock_pin(s: BScript, log: Log, low: bool) -> Unimock {
        let (s1, s2, s3, s4) = (s.clone(), s.clone(), s.clone(), s);
        let (l1, l2, l3, l4) = (log.clone(), log.clone(), log.clone(), log);
        mk((
            hm::digital::OutputPinMock::set_low.each_call(matching!()).answers_arc(Arc::new(move |_| if pin_unit(&s1, &l1, "set_low") { Ok(()) } else { Err(merr()) })),
            hm::digital::OutputPinMock::set_high.each_call(matching!()).answers_arc(Arc::new(move |_| if pin_unit(&s2, &l2, "set_high") { Ok(()) } else { Err(merr()) })),
            hm::digital::StatefulOutputPinMock::is_set_high.each_call(matching!()).answers_arc(Arc::new(move |_| if pin_unit(&s3, &l3, "is_set_high") { Ok(!low) } else { Err(merr()) })),
            hm::digital::StatefulOutputPinMock::is_set_low.each_call(matching!()).answers_arc(Arc::new(move |_| if pin_unit(&s4, &l4, "is_set_low") { Ok(low) } else { Err(merr()) })),
        ))
        .no_verify_in_drop()
    }

    // ---- pwm
    struct PlainPwm(BScript, Log, u16);
    impl pwm::ErrorType for PlainPwm {
        type Error = PErr;
    }
    impl SetDutyCycle for PlainPwm {
        fn max_duty_cycle(&self) -> u16 {
            rec(&self.1, "max_duty_cycle()".into());
            self.2
        }
        fn set_duty_cycle(&mut self, duty: u16) -> Result<(), PErr> {
            rec(&self.1, format!("set_duty_cycle({duty})"));
            if ok_step(&self.0) { Ok(()) } else { Err(PErr) }
        }
    }
    fn mock_pwm(s: BScript, log: Log, max: u16) -> Unimock {
        let (l1, l2) = (log.clone(), log);
        mk((
            hm::pwm::SetDutyCycleMock::max_duty_cycle.each_call(matching!()).answers_arc(Arc::new(move |_| {
                rec(&l1, "max_duty_cycle()".into());
                max
            })),
            hm::pwm::SetDutyCycleMock::set_duty_cycle.each_call(matching!(_)).answers_arc(Arc::new(move |_, duty| {
                rec(&l2, format!("set_duty_cycle({duty})"));
                if ok_step(&s) { Ok(()) } else { Err(merr()) }
            })),
        ))
        .no_verify_in_drop()
    }

    // ---- i2c (both address modes) and spi devices (two word types): one required `transaction`
    fn i2c_ops(s: &BScript, log: &Log, addr: String, ops: &mut [i2c::Operation<'_>]) -> bool {
        let mut d = vec![];
        for op in ops.iter_mut() {
            match op {
                i2c::Operation::Read(b) => {
                    for (k, x) in b.iter_mut().enumerate() {
                        *x = 0xA0 + k as u8;
                    }
                    d.push(format!("R{}", b.len()));
                }
                i2c::Operation::Write(b) => d.push(format!("W{b:?}")),
            }
        }
        rec(log, format!("transaction({addr}, {d:?})"));
        ok_step(s)
    }
    macro_rules! i2c_for {
        ($plain:ident, $mock:ident, $a:ty) => {
            struct $plain(BScript, Log);
            impl i2c::ErrorType for $plain {
                type Error = PErr;
            }
            impl I2c<$a> for $plain {
                fn transaction(&mut self, address: $a, operations: &mut [i2c::Operation<'_>]) -> Result<(), PErr> {
                    if i2c_ops(&self.0, &self.1, format!("{address:?}"), operations) { Ok(()) } else { Err(PErr) }
                }
            }
            fn $mock(s: BScript, log: Log) -> Unimock {
                mk(hm::i2c::I2cMock::transaction.with_types::<$a>().each_call(matching!(_, _)).answers_arc(Arc::new(move |_, address, operations| {
                    if i2c_ops(&s, &log, format!("{address:?}"), operations) { Ok(()) } else { Err(merr()) }
                })))
                .no_verify_in_drop()
            }
        };
    }
    i2c_for!(PlainI2c7, mock_i2c7, u8);
    i2c_for!(PlainI2c10, mock_i2c10, u16);

    macro_rules! spi_for {
        ($plain:ident, $mock:ident, $ops:ident, $w:ty) => {
            fn $ops(s: &BScript, log: &Log, ops: &mut [spi::Operation<'_, $w>]) -> bool {
                let mut d = vec![];
                for op in ops.iter_mut() {
                    match op {
                        spi::Operation::Read(b) => {
                            for (k, x) in b.iter_mut().enumerate() {
                                *x = 0x50 + k as $w;
                            }
                            d.push(format!("R{}", b.len()));
                        }
                        spi::Operation::Write(b) => d.push(format!("W{b:?}")),
                        spi::Operation::Transfer(r, w) => {
                            for (k, x) in r.iter_mut().enumerate() {
                                *x = 0x60 + k as $w;
                            }
                            d.push(format!("T{}:{w:?}", r.len()));
                        }
                        spi::Operation::TransferInPlace(b) => {
                            d.push(format!("I{b:?}"));
                            for x in b.iter_mut() {
                                *x = x.wrapping_add(1);
                            }
                        }
                        spi::Operation::DelayNs(n) => d.push(format!("D{n}")),
                    }
                }
                rec(log, format!("transaction({d:?})"));
                ok_step(s)
            }
            struct $plain(BScript, Log);
            impl spi::ErrorType for $plain {
                type Error = PErr;
            }
            impl SpiDevice<$w> for $plain {
                fn transaction(&mut self, operations: &mut [spi::Operation<'_, $w>]) -> Result<(), PErr> {
                    if $ops(&self.0, &self.1, operations) { Ok(()) } else { Err(PErr) }
                }
            }
            fn $mock(s: BScript, log: Log) -> Unimock {
                mk(hm::spi::SpiDeviceMock::transaction.with_types::<$w>().each_call(matching!(_)).answers_arc(Arc::new(move |_, operations| {
                    if $ops(&s, &log, operations) { Ok(()) } else { Err(merr()) }
                })))
                .no_verify_in_drop()
            }
        };
    }
    spi_for!(PlainSpi8, mock_spi8, spi_ops8, u8);
    spi_for!(PlainSpi16, mock_spi16, spi_ops16, u16);

    fn bs(v: &[bool]) -> BScript {
        Arc::new(Mutex::new(v.to_vec().into()))
    }

    pub fn differential(rng: &mut Rng, i: usize) {
        // OutputPin::set_state, StatefulOutputPin::toggle
        {
            let sc = bscript(rng, 8);
            let low = rng.below(2) == 0;
            let (lm, lp) = (newlog(), newlog());
            let mut m = mock_pin(bs(&sc), lm.clone(), low);
            let mut p = PlainPin(bs(&sc), lp.clone(), low);
            let st = if rng.below(2) == 0 { PinState::Low } else { PinState::High };
            let rm = guarded(|| OutputPin::set_state(&mut m, st), |r| shape(&r));
            let rp = guarded(|| p.set_state(st), |r| shape(&r));
            diff(&format!("hal::OutputPin::set_state#{i}"), (rm, take(&lm)), (rp, take(&lp)));
            let rm = guarded(|| (StatefulOutputPin::toggle(&mut m), StatefulOutputPin::toggle(&mut m)), |r| format!("{} {}", shape(&r.0), shape(&r.1)));
            let rp = guarded(|| (p.toggle(), p.toggle()), |r| format!("{} {}", shape(&r.0), shape(&r.1)));
            diff(&format!("hal::StatefulOutputPin::toggle#{i}"), (rm, take(&lm)), (rp, take(&lp)));
        }
        // SetDutyCycle: fully_off / fully_on / fraction / percent
        {
            let sc = bscript(rng, 8);
            let max = 1 + rng.below(60_000) as u16;
            let denom = 1 + rng.below(1000) as u16;
            let num = rng.below(denom as u64 + 1) as u16;
            let pct = rng.below(101) as u8;
            let (lm, lp) = (newlog(), newlog());
            let mut m = mock_pwm(bs(&sc), lm.clone(), max);
            let mut p = PlainPwm(bs(&sc), lp.clone(), max);
            let rm = guarded(|| shape(&m.set_duty_cycle_fully_off()), |s| s);
            let rp = guarded(|| shape(&p.set_duty_cycle_fully_off()), |s| s);
            diff(&format!("hal::SetDutyCycle::set_duty_cycle_fully_off#{i}"), (rm, take(&lm)), (rp, take(&lp)));
            let rm = guarded(|| shape(&m.set_duty_cycle_fully_on()), |s| s);
            let rp = guarded(|| shape(&p.set_duty_cycle_fully_on()), |s| s);
            diff(&format!("hal::SetDutyCycle::set_duty_cycle_fully_on#{i}"), (rm, take(&lm)), (rp, take(&lp)));
            let rm = guarded(|| shape(&m.set_duty_cycle_fraction(num, denom)), |s| s);
            let rp = guarded(|| shape(&p.set_duty_cycle_fraction(num, denom)), |s| s);
            diff(&format!("hal::SetDutyCycle::set_duty_cycle_fraction#{i}"), (rm, take(&lm)), (rp, take(&lp)));
            let rm = guarded(|| shape(&m.set_duty_cycle_percent(pct)), |s| s);
            let rp = guarded(|| shape(&p.set_duty_cycle_percent(pct)), |s| s);
            diff(&format!("hal::SetDutyCycle::set_duty_cycle_percent#{i}"), (rm, take(&lm)), (rp, take(&lp)));
        }
        // I2c<SevenBitAddress> / I2c<TenBitAddress>: read / write / write_read over transaction
        macro_rules! i2c_run {
            ($mock:ident, $plain:ident, $addr:expr) => {{
                let sc = bscript(rng, 4);
                let n = rng.below(5) as usize;
                let w: Vec<u8> = (0..rng.below(5)).map(|x| x as u8 * 3).collect();
                let (lm, lp) = (newlog(), newlog());
                let mut m = $mock(bs(&sc), lm.clone());
                let mut p = $plain(bs(&sc), lp.clone());
                let (mut b1, mut b2) = (vec![0u8; n], vec![0u8; n]);
                let rm = guarded(|| shape(&I2c::read(&mut m, $addr, &mut b1)), |s| s);
                let rp = guarded(|| shape(&p.read($addr, &mut b2)), |s| s);
                diff(&format!("hal::I2c::read#{i}"), (format!("{rm} {b1:?}"), take(&lm)), (format!("{rp} {b2:?}"), take(&lp)));
                let rm = guarded(|| shape(&I2c::write(&mut m, $addr, &w)), |s| s);
                let rp = guarded(|| shape(&p.write($addr, &w)), |s| s);
                diff(&format!("hal::I2c::write#{i}"), (rm, take(&lm)), (rp, take(&lp)));
                let rm = guarded(|| shape(&I2c::write_read(&mut m, $addr, &w, &mut b1)), |s| s);
                let rp = guarded(|| shape(&p.write_read($addr, &w, &mut b2)), |s| s);
                diff(&format!("hal::I2c::write_read#{i}"), (format!("{rm} {b1:?}"), take(&lm)), (format!("{rp} {b2:?}"), take(&lp)));
            }};
        }
        if i % 2 == 0 {
            i2c_run!(mock_i2c7, PlainI2c7, 0x2Au8)
        } else {
            i2c_run!(mock_i2c10, PlainI2c10, 0x32Au16)
        }
        // SpiDevice<u8> / SpiDevice<u16>: read / write / transfer / transfer_in_place over transaction
        macro_rules! spi_run {
            ($mock:ident, $plain:ident, $w:ty) => {{
                let sc = bscript(rng, 4);
                let n = rng.below(5) as usize;
                let w: Vec<$w> = (0..rng.below(5)).map(|x| x as $w * 7).collect();
                let (lm, lp) = (newlog(), newlog());
                let mut m = $mock(bs(&sc), lm.clone());
                let mut p = $plain(bs(&sc), lp.clone());
                let (mut b1, mut b2): (Vec<$w>, Vec<$w>) = (vec![0; n], vec![0; n]);
                let rm = guarded(|| shape(&SpiDevice::<$w>::read(&mut m, &mut b1)), |s| s);
                let rp = guarded(|| shape(&p.read(&mut b2)), |s| s);
                diff(&format!("hal::SpiDevice::read#{i}"), (format!("{rm} {b1:?}"), take(&lm)), (format!("{rp} {b2:?}"), take(&lp)));
                let rm = guarded(|| shape(&SpiDevice::<$w>::write(&mut m, &w)), |s| s);
                let rp = guarded(|| shape(&p.write(&w)), |s| s);
                diff(&format!("hal::SpiDevice::write#{i}"), (rm, take(&lm)), (rp, take(&lp)));
                let rm = guarded(|| shape(&SpiDevice::<$w>::transfer(&mut m, &mut b1, &w)), |s| s);
                let rp = guarded(|| shape(&p.transfer(&mut b2, &w)), |s| s);
                diff(&format!("hal::SpiDevice::transfer#{i}"), (format!("{rm} {b1:?}"), take(&lm)), (format!("{rp} {b2:?}"), take(&lp)));
                let rm = guarded(|| shape(&SpiDevice::<$w>::transfer_in_place(&mut m, &mut b1)), |s| s);
                let rp = guarded(|| shape(&p.transfer_in_place(&mut b2)), |s| s);
                diff(&format!("hal::SpiDevice::transfer_in_place#{i}"), (format!("{rm} {b1:?}"), take(&lm)), (format!("{rp} {b2:?}"), take(&lp)));
            }};
        }
        if i % 2 == 0 {
            spi_run!(mock_spi8, PlainSpi8, u8)
        } else {
            spi_run!(mock_spi16, PlainSpi16, u16)
        }
    }

    pub fn wiring(wire: &dyn Fn(&str, bool, String)) {
        // error kinds
        let m = Unimock::new(hm::digital::ErrorMock::kind.next_call(matching!()).returns(digital::ErrorKind::Other));
        let r = guarded(|| digital::Error::kind(&m), |k| format!("{k:?}"));
        wire("wire:hal::DigitalError::kind", r == "Other", r);
        let m = Unimock::new(hm::i2c::ErrorMock::kind.next_call(matching!()).returns(i2c::ErrorKind::Bus));
        let r = guarded(|| i2c::Error::kind(&m), |k| format!("{k:?}"));
        wire("wire:hal::I2cError::kind", r == "Bus", r);
        let m = Unimock::new(hm::pwm::ErrorMock::kind.next_call(matching!()).returns(pwm::ErrorKind::Other));
        let r = guarded(|| pwm::Error::kind(&m), |k| format!("{k:?}"));
        wire("wire:hal::PwmError::kind", r == "Other", r);
        let m = Unimock::new(hm::spi::ErrorMock::kind.next_call(matching!()).returns(spi::ErrorKind::Overrun));
        let r = guarded(|| spi::Error::kind(&m), |k| format!("{k:?}"));
        wire("wire:hal::SpiError::kind", r == "Overrun", r);
        // pins
        let mut m = Unimock::new(hm::digital::InputPinMock::is_high.next_call(matching!()).returns(Ok(true)));
        let r = guarded(|| shape(&m.is_high()), |s| s);
        wire("wire:hal::InputPin::is_high", r == "Ok(true)", r);
        let mut m = Unimock::new(hm::digital::InputPinMock::is_low.next_call(matching!()).returns(Ok(false)));
        let r = guarded(|| shape(&m.is_low()), |s| s);
        wire("wire:hal::InputPin::is_low", r == "Ok(false)", r);
        let mut m = Unimock::new(hm::digital::OutputPinMock::set_low.next_call(matching!()).returns(Ok(())));
        let r = guarded(|| shape(&m.set_low()), |s| s);
        wire("wire:hal::OutputPin::set_low", r == "Ok(())", r);
        let mut m = Unimock::new(hm::digital::OutputPinMock::set_high.next_call(matching!()).returns(Err(Unimock::new(()))));
        let r = guarded(|| shape(&m.set_high()), |s| s);
        wire("wire:hal::OutputPin::set_high", r == "Err", r);
        let mut m = Unimock::new(hm::digital::StatefulOutputPinMock::is_set_high.next_call(matching!()).returns(Ok(true)));
        let r = guarded(|| shape(&m.is_set_high()), |s| s);
        wire("wire:hal::StatefulOutputPin::is_set_high", r == "Ok(true)", r);
        let mut m = Unimock::new(hm::digital::StatefulOutputPinMock::is_set_low.next_call(matching!()).returns(Ok(true)));
        let r = guarded(|| shape(&m.is_set_low()), |s| s);
        wire("wire:hal::StatefulOutputPin::is_set_low", r == "Ok(true)", r);
        // pwm
        let m = Unimock::new(hm::pwm::SetDutyCycleMock::max_duty_cycle.next_call(matching!()).returns(777u16));
        let r = guarded(|| m.max_duty_cycle(), |v| v.to_string());
        wire("wire:hal::SetDutyCycle::max_duty_cycle", r == "777", r);
        let mut m = Unimock::new(hm::pwm::SetDutyCycleMock::set_duty_cycle.next_call(matching!(31)).returns(Ok(())));
        let r = guarded(|| shape(&m.set_duty_cycle(31)), |s| s);
        wire("wire:hal::SetDutyCycle::set_duty_cycle", r == "Ok(())", r);
        // i2c / spi device transactions
        let mut m = Unimock::new(hm::i2c::I2cMock::transaction.with_types::<u8>().next_call(matching!(9, _)).returns(Ok(())));
        let r = guarded(|| shape(&I2c::transaction(&mut m, 9u8, &mut [])), |s| s);
        wire("wire:hal::I2c::transaction", r == "Ok(())", r);
        let mut m = Unimock::new(hm::spi::SpiDeviceMock::transaction.with_types::<u8>().next_call(matching!(_)).returns(Ok(())));
        let r = guarded(|| shape(&SpiDevice::<u8>::transaction(&mut m, &mut [])), |s| s);
        wire("wire:hal::SpiDevice::transaction", r == "Ok(())", r);
        // spi bus: all required
        let mut b = [0u8; 2];
        let mut m = Unimock::new(hm::spi::SpiBusMock::read.with_types::<u8>().next_call(matching!(_)).answers(&|_, w| {
            w[0] = 5;
            Ok(())
        }));
        let r = guarded(|| shape(&SpiBus::<u8>::read(&mut m, &mut b)), |s| s);
        wire("wire:hal::SpiBus::read", r == "Ok(())" && b[0] == 5, format!("{r} {b:?}"));
        let mut m = Unimock::new(hm::spi::SpiBusMock::write.with_types::<u8>().next_call(matching!([1, 2])).returns(Ok(())));
        let r = guarded(|| shape(&SpiBus::<u8>::write(&mut m, &[1, 2])), |s| s);
        wire("wire:hal::SpiBus::write", r == "Ok(())", r);
        let mut m = Unimock::new(hm::spi::SpiBusMock::transfer.with_types::<u8>().next_call(matching!(_, [3])).returns(Ok(())));
        let r = guarded(|| shape(&SpiBus::<u8>::transfer(&mut m, &mut b, &[3])), |s| s);
        wire("wire:hal::SpiBus::transfer", r == "Ok(())", r);
        let mut m = Unimock::new(hm::spi::SpiBusMock::transfer_in_place.with_types::<u8>().next_call(matching!(_)).returns(Ok(())));
        let r = guarded(|| shape(&SpiBus::<u8>::transfer_in_place(&mut m, &mut b)), |s| s);
        wire("wire:hal::SpiBus::transfer_in_place", r == "Ok(())", r);
        let mut m = Unimock::new(hm::spi::SpiBusMock::flush.with_types::<u8>().next_call(matching!()).returns(Ok(())));
        let r = guarded(|| shape(&SpiBus::<u8>::flush(&mut m)), |s| s);
        wire("wire:hal::SpiBus::flush", r == "Ok(())", r);
    }
}

// ------------------------------------------------------------------ mirrored supertraits reached through the delegation helper
// A user trait whose provided method formats `self`: un-mocked, its body runs on the delegation helper, whose
// Display / Debug must be served by DisplayMock::fmt / DebugMock::fmt like those of the instance itself.
#[unimock(api=NamedMock)]
trait Named: std::fmt::Display + std::fmt::Debug {
    fn id(&self) -> u32;
    fn label(&self) -> String {
        format!("<{}|{:?}|{:>6}|{}>", self, self, self, self.id())
    }
}
struct PlainNamed(String, String, u32);
impl std::fmt::Display for PlainNamed {
    fn fmt(&self, f: &mut std::fmt::Formatter<'_>) -> std::fmt::Result {
        f.pad(&self.0)
    }
}
impl std::fmt::Debug for PlainNamed {
    fn fmt(&self, f: &mut std::fmt::Formatter<'_>) -> std::fmt::Result {
        f.pad(&self.1)
    }
}
impl Named for PlainNamed {
    fn id(&self) -> u32 {
        self.2
    }
}
fn named_diff(rng: &mut Rng, i: usize) {
    let (d, g, id) = (format!("d{}", rng.below(100)), format!("g{}", rng.below(100)), rng.below(1000) as u32);
    let (d2, g2) = (d.clone(), g.clone());
    let m = mk((
        DisplayMock::fmt.each_call(matching!(_)).answers_arc(Arc::new(move |_, f| f.pad(&d2))),
        DebugMock::fmt.each_call(matching!(_)).answers_arc(Arc::new(move |_, f| f.pad(&g2))),
        NamedMock::id.each_call(matching!()).returns(id),
    ))
    .no_verify_in_drop();
    let p = PlainNamed(d, g, id);
    let rm = guarded(|| format!("{} / {m} / {m:?}", m.label()), |s| s);
    let rp = guarded(|| format!("{} / {p} / {p:?}", p.label()), |s| s);
    diff(&format!("Display+Debug via a subtrait's provided method#{i}"), (rm, vec![]), (rp, vec![]));
}

fn main() {
    std::panic::set_hook(Box::new(|_| {}));
    let seed: u64 = std::env::var("VERIF_SEED").ok().and_then(|s| s.parse().ok()).unwrap_or(1);
    let runs: usize = std::env::var("C20_RUNS").ok().and_then(|s| s.parse().ok()).unwrap_or(200);
    let mut rng = Rng(seed.wrapping_mul(0x9E3779B97F4A7C15) | 1);

    // ---------------- differential runs through upstream provided methods ----------------
    for i in 0..runs {
        PARTIAL.store(i % 2 == 1, std::sync::atomic::Ordering::SeqCst);
        if i < 60 || i % 25 == 0 {
            ehal::differential(&mut rng, i);
            named_diff(&mut rng, i);
        }
        // Write::write_all
        let script = gen_script(&mut rng, 6);
        let payload: Vec<u8> = (0..rng.below(12)).map(|x| x as u8).collect();
        let (lm, lp) = (newlog(), newlog());
        let mut m = mock_writer(Arc::new(Mutex::new(script.clone().into())), lm.clone());
        let mut p = PlainWriter(Arc::new(Mutex::new(script.clone().into())), lp.clone());
        let rm = guarded(|| m.write_all(&payload), |r| show_res(&r));
        let rp = guarded(|| p.write_all(&payload), |r| show_res(&r));
        diff(&format!("Write::write_all#{i}"), (rm, take(&lm)), (rp, take(&lp)));
        // Write::write_vectored
        let (a, b) = (vec![1u8, 2], vec![3u8, 4, 5]);
        let bufs = [io::IoSlice::new(&a), io::IoSlice::new(&b)];
        let rm = guarded(|| m.write_vectored(&bufs), |r| show_res(&r));
        let rp = guarded(|| p.write_vectored(&bufs), |r| show_res(&r));
        diff(&format!("Write::write_vectored#{i}"), (rm, take(&lm)), (rp, take(&lp)));
        drop(m);

        // Read::read_exact / read_to_end / read_to_string / read_vectored
        for which in ["read_exact", "read_to_end", "read_to_string", "read_vectored"] {
            let script = gen_script(&mut rng, 5);
            let (lm, lp) = (newlog(), newlog());
            let mut m = mock_reader(Arc::new(Mutex::new(script.clone().into())), lm.clone());
            let mut p = PlainReader(Arc::new(Mutex::new(script.clone().into())), lp.clone(), Arc::new(Mutex::new(0)));
            let n = 1 + rng.below(8) as usize;
            let run = |r: &mut dyn Read| -> String {
                match which {
                    "read_exact" => {
                        let mut buf = vec![0u8; n];
                        let res = r.read_exact(&mut buf);
                        format!("{} {:?}", show_res(&res), buf)
                    }
                    "read_to_end" => {
                        let mut buf = vec![];
                        let res = r.read_to_end(&mut buf);
                        format!("{} {:?}", show_res(&res), buf)
                    }
                    "read_to_string" => {
                        let mut buf = String::new();
                        let res = r.read_to_string(&mut buf);
                        format!("{} {:?}", show_res(&res), buf)
                    }
                    _ => {
                        let (mut a, mut b) = (vec![0u8; 2], vec![0u8; 3]);
                        let res = {
                            let mut bufs = [io::IoSliceMut::new(&mut a), io::IoSliceMut::new(&mut b)];
                            r.read_vectored(&mut bufs)
                        };
                        format!("{} {:?} {:?}", show_res(&res), a, b)
                    }
                }
            };
            let rm = guarded(|| run(&mut m), |s| s);
            let rp = guarded(|| run(&mut p), |s| s);
            // the number of read calls of read_to_end depends on buffer growth only through the script: identical on both sides
            diff(&format!("Read::{which}#{i}"), (rm, take(&lm)), (rp, take(&lp)));
        }

        // BufRead::read_line / read_until
        for which in ["read_line", "read_until"] {
            let chunks = buf_chunks(&mut rng);
            let (lm, lp) = (newlog(), newlog());
            let mut m = mock_buf(Arc::new(Mutex::new(BufState { chunks: chunks.clone(), cur: vec![] })), lm.clone());
            let mut p = PlainBuf(Arc::new(Mutex::new(BufState { chunks: chunks.clone(), cur: vec![] })), lp.clone(), vec![]);
            let run = |r: &mut dyn BufRead| -> String {
                let mut out = vec![];
                for _ in 0..3 {
                    if which == "read_line" {
                        let mut s = String::new();
                        let res = r.read_line(&mut s);
                        out.push(format!("{} {:?}", show_res(&res), s));
                    } else {
                        let mut v = vec![];
                        let res = r.read_until(b'c', &mut v);
                        out.push(format!("{} {:?}", show_res(&res), v));
                    }
                }
                out.join(";")
            };
            let rm = guarded(|| run(&mut m), |s| s);
            let rp = guarded(|| run(&mut p), |s| s);
            diff(&format!("BufRead::{which}#{i}"), (rm, take(&lm)), (rp, take(&lp)));
        }

        // Hasher::write_*  (provided: they feed bytes to write)
        {
            use std::hash::Hasher;
            let (lm, lp) = (newlog(), newlog());
            let mut m = mock_hasher(lm.clone());
            let mut p = PlainHasher(lp.clone());
            let v = rng.next();
            let run = |h: &mut dyn Hasher| -> String {
                h.write_u8(v as u8);
                h.write_u16(v as u16);
                h.write_u32(v as u32);
                h.write_u64(v);
                h.write_u128(v as u128 * 3);
                h.write_usize(v as usize);
                h.write_i8(v as i8);
                h.write_i16(v as i16);
                h.write_i32(v as i32);
                h.write_i64(v as i64);
                h.write_i128(v as i128);
                h.write_isize(v as isize);
                format!("{}", h.finish())
            };
            let rm = guarded(|| run(&mut m), |s| s);
            let rp = guarded(|| run(&mut p), |s| s);
            if i < 20 {
                diff(&format!("Hasher::write_ints#{i}"), (rm, take(&lm)), (rp, take(&lp)));
            }
        }
        if i < 5 {
            // Seek::rewind / stream_position
            let (lm, lp) = (newlog(), newlog());
            let mut m = mock_seek(lm.clone());
            let mut p = PlainSeek(lp.clone());
            let run = |s: &mut dyn Seek| format!("{} {}", show_res(&s.rewind()), show_res(&s.stream_position()));
            let rm = guarded(|| run(&mut m), |s| s);
            let rp = guarded(|| run(&mut p), |s| s);
            diff(&format!("Seek::rewind+stream_position#{i}"), (rm, take(&lm)), (rp, take(&lp)));
            // DelayNs::delay_us / delay_ms
            use embedded_hal::delay::DelayNs;
            let (lm, lp) = (newlog(), newlog());
            let mut m = mock_delay(lm.clone());
            let mut p = PlainDelay(lp.clone());
            let us = 1 + rng.below(5_000_000) as u32;
            let ms = 1 + rng.below(9_000) as u32;
            let rm = guarded(|| { m.delay_us(us); m.delay_ms(ms); }, |_| "()".to_string());
            let rp = guarded(|| { p.delay_us(us); p.delay_ms(ms); }, |_| "()".to_string());
            diff(&format!("DelayNs::delay_us+delay_ms#{i}"), (rm, take(&lm)), (rp, take(&lp)));
            // Display through format! with padding flags
            let text = format!("t{}", rng.below(1000));
            let t2 = text.clone();
            let m = mk(DisplayMock::fmt.each_call(matching!(_)).answers_arc(Arc::new(move |_, f| f.pad(&t2)))).no_verify_in_drop();
            let p = PlainDisplay(text);
            let rm = guarded(|| format!("{m}|{m:>8}|{m:<6}|"), |s| s);
            let rp = guarded(|| format!("{p}|{p:>8}|{p:<6}|"), |s| s);
            diff(&format!("Display::fmt via format!#{i}"), (rm, vec![]), (rp, vec![]));
        }
    }

    // ---------------- wiring: every required method is served by its own entry point ----------------
    let wire = |case: &str, ok: bool, detail: String| emit(case, vec![("kind", jstr("wire")), ("ok", ok.to_string()), ("detail", jstr(&detail))]);
    {
        let m = Unimock::new(DisplayMock::fmt.next_call(matching!(_)).answers(&|_, f| f.write_str("D!")));
        let r = guarded(|| format!("{m}"), |s| s);
        wire("wire:Display::fmt", r == "D!", r);
        let m = Unimock::new(DebugMock::fmt.next_call(matching!(_)).answers(&|_, f| f.write_str("G!")));
        let r = guarded(|| format!("{m:?}"), |s| s);
        wire("wire:Debug::fmt", r == "G!", r);
    }
    {
        use std::hash::Hasher;
        let m = Unimock::new(HasherMock::finish.next_call(matching!()).returns(41u64));
        let r = guarded(|| m.finish(), |v| v.to_string());
        wire("wire:Hasher::finish", r == "41", r);
        let mut m = Unimock::new(HasherMock::write.next_call(matching!([1, 2])).returns(()));
        let r = guarded(|| Hasher::write(&mut m, &[1, 2]), |_| "()".to_string());
        wire("wire:Hasher::write", r == "()", r);
    }
    {
        let mut m = Unimock::new(WriteMock::write.next_call(matching!([9])).returns(Ok(1)));
        let r = guarded(|| Write::write(&mut m, &[9]), |r| show_res(&r));
        wire("wire:Write::write", r == "Ok(1)", r);
        let mut m = Unimock::new(WriteMock::flush.next_call(matching!()).returns(Ok(())));
        let r = guarded(|| m.flush(), |r| show_res(&r));
        wire("wire:Write::flush", r == "Ok(())", r);
        // a provided method can also be mocked directly: then the upstream body must not run
        let mut m = Unimock::new(WriteMock::write_all.next_call(matching!([1, 2, 3])).returns(Ok(())));
        let r = guarded(|| m.write_all(&[1, 2, 3]), |r| show_res(&r));
        wire("wire:Write::write_all(mocked)", r == "Ok(())", r);
    }
    {
        let mut m = Unimock::new(ReadMock::read.next_call(matching!(_)).answers(&|_, buf| {
            buf[0] = 7;
            Ok(1)
        }));
        let mut b = [0u8; 2];
        let r = guarded(|| m.read(&mut b), |r| show_res(&r));
        wire("wire:Read::read", r == "Ok(1)" && b[0] == 7, format!("{r} {b:?}"));
        let mut m = Unimock::new(ReadMock::read_exact.next_call(matching!(_)).returns(Ok(())));
        let r = guarded(|| m.read_exact(&mut b), |r| show_res(&r));
        wire("wire:Read::read_exact(mocked)", r == "Ok(())", r);
    }
    {
        let mut m = Unimock::new(SeekMock::seek.next_call(matching!(SeekFrom::Start(3))).returns(Ok(3)));
        let r = guarded(|| m.seek(SeekFrom::Start(3)), |r| show_res(&r));
        wire("wire:Seek::seek", r == "Ok(3)", r);
    }
    {
        let mut m = Unimock::new((
            BufReadMock::fill_buf.next_call(matching!()).returns(Ok::<Vec<u8>, io::Error>(vec![1u8, 2, 3])),
            BufReadMock::consume.next_call(matching!(2)).returns(()),
        ));
        let r = guarded(|| { let v = m.fill_buf().map(|s| s.to_vec()); m.consume(2); v }, |r| show_res(&r));
        wire("wire:BufRead::fill_buf", r == "Ok([1, 2, 3])", r.clone());
        wire("wire:BufRead::consume", r == "Ok([1, 2, 3])", r);
    }
    {
        use embedded_hal::delay::DelayNs;
        let mut m = Unimock::new(DelayNsMock::delay_ns.next_call(matching!(5)).returns(()));
        let r = guarded(|| m.delay_ns(5), |_| "()".to_string());
        wire("wire:DelayNs::delay_ns", r == "()", r);
    }
    asyncio::run(&wire);
    ehal::wiring(&wire);
    {
        use std::error::Error;
        // Error::source is provided: un-mocked it runs the upstream default (None) on a mock that knows nothing else
        let m = Unimock::new(());
        let r = guarded(|| m.source().is_none(), |b| b.to_string());
        wire("wire:Error::source(default)", r == "true", r);
        let _ = ErrorMock::source;
    }
}
