------------------------------ MODULE MC_Unmock -------------------------------
EXTENDS Shapes, Json
CONSTANTS Fam, EmitOn
VARIABLES cs, done
Cases == IF Fam = "Q" THEN UnmockShapes({1, 2}, {"ref", "mut", "pin", "own"}) ELSE UnmockShapes({1, 2, 3}, {"ref", "mut", "pin", "own"})
Init == cs \in Cases /\ done = FALSE
Next == ~done /\ done' = TRUE /\ UNCHANGED cs
Spec == Init /\ [][Next]_<<cs, done>>
Emit == (EmitOn /\ done) => PrintT(<<"CASE", ToJson([shape |-> cs, exp |-> UnmockExpected(cs)])>>)
=============================================================================
