"""C07 over receiver kinds: the fall-back decision table on generated traits (tla/Shapes.tla FallbackExpected)."""
RECV = {"ref": "&self", "mut": "&mut self", "own": "self", "rc": "self: std::rc::Rc<Self>", "arc": "self: std::sync::Arc<Self>", "pin": "self: std::pin::Pin<&mut Self>"}
DEP = {"ref": "&impl Tr%d", "mut": "&mut impl Tr%d", "pin": "&mut impl Tr%d", "own": "impl Tr%d", "rc": "std::rc::Rc<impl Tr%d>", "arc": "std::sync::Arc<impl Tr%d>"}
MARK = {"CannotUnmock": "cannot be unmocked as there is no function available to call", "NoMockImplementation": "No mock implementation found",
        "NoMatchingCallPatterns": "No matching call patterns"}


def render(cases):
    L = ["mod prelude;", "use prelude::*;", "use unimock::*;", ""]
    exp = {}
    fns = []
    for n, c in enumerate(cases):
        sh, ex = c["shape"], c["exp"]
        recv = sh["recv"]
        uw = ", unmock_with=[real%d]" % n if sh["real"] else ""
        body = " { 7000 }" if sh["dflt"] else ";"
        where = " where Self: Sized" if (recv == "own" and sh["dflt"]) else ""
        L.append("#[unimock(api=M%d%s)]" % (n, uw))
        L.append("trait Tr%d { fn m%d(%s, a: u8) -> u32%s%s }" % (n, n, RECV[recv], where, body))
        if sh["real"]:
            L.append("fn real%d(_dep: %s, a: u8) -> u32 { rec_a(vec![sh(&a)]); 9000 }" % (n, DEP[recv] % n))
        clause = "()" if sh["mention"] == "none" else "M%d::m%d.each_call(matching!(1)).returns(5000u32)" % (n, n)
        build = "Unimock::new_partial(%s)" % clause if sh["partial"] else "Unimock::new(%s)" % clause
        a = 1 if sh["mention"] == "matched" else 2
        call = {"ref": "u.m%d(%d)", "mut": "u.m%d(%d)", "own": "u.m%d(%d)", "rc": "std::rc::Rc::new(u).m%d(%d)", "arc": "std::sync::Arc::new(u).m%d(%d)",
                "pin": "std::pin::Pin::new(&mut u).m%d(%d)"}[recv] % (n, a)
        cid = "f%d" % n
        L.append("fn %s() {" % cid)
        L.append("    let _ = take_a();")
        L.append("    let %su = %s.no_verify_in_drop();" % ("mut " if recv in ("mut", "pin") else "", build))
        L.append("    let r = observe(|| %s, |r| r.to_string());" % call)
        L.append("    let real_calls = take_a().len();")
        L.append("    emit(\"%s\", vec![(\"r\", res_json(&r)), (\"real_calls\", real_calls.to_string())]);" % cid)
        L.append("}")
        fns.append(cid)
        exp[cid] = {"shape": sh, "exp": ex, "sig": "fn m(%s, a: u8) -> u32%s" % (RECV[recv], body), "mock": build, "call_arg": a}
    L.append("fn main() {")
    L.append("    std::panic::set_hook(Box::new(|_| {}));")
    for f in fns:
        L.append("    %s();" % f)
    L.append("}")
    return "\n".join(L) + "\n", exp


def compare(exp, obs_lines):
    obs = {o["case"]: o for o in obs_lines}
    divs = []
    for cid, e in exp.items():
        o = obs.get(cid)
        if o is None:
            divs.append({"case": cid, "what": "case produced no observation", "expected": None, "observed": None, "exp": e})
            continue
        ex = e["exp"]
        r = o["r"]
        desc = "%s; %s; called with %d" % (e["sig"], e["mock"], e["call_arg"])
        if ex["k"] == "ret":
            ok = r == {"ok": str(ex["v"])} and o["real_calls"] == (1 if ex["v"] == 9000 else 0)
        else:
            msg = r.get("panic", "") if isinstance(r, dict) else ""
            ok = MARK[ex["class"]] in msg and ("Tr%s::m%s" % (cid[1:], cid[1:])) in msg and o["real_calls"] == 0
        if not ok:
            divs.append({"case": cid, "what": "a call without an applicable pattern was not handled as the statement says [%s]" % desc,
                         "expected": ex, "observed": {"r": r, "real_calls": o["real_calls"]}, "exp": e})
    return divs
