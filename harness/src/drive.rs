//! Random driver (code -> spec): larger configurations and longer histories than TLC enumerates,
//! run on the real mock, every public operation logged at its return for MockTrace.tla.
use crate::chain::*;
use crate::classify::*;
use crate::replay::{call_top, finish, FinishObs, Obs};
use crate::universe::*;
use serde_json::{json, Value};
use std::io::Write;
use std::panic::{catch_unwind, AssertUnwindSafe};
use unimock::*;

struct Rng(u64);
impl Rng {
    fn next(&mut self) -> u64 {
        self.0 ^= self.0 << 13;
        self.0 ^= self.0 >> 7;
        self.0 ^= self.0 << 17;
        self.0
    }
    fn below(&mut self, n: u64) -> u64 {
        self.next() % n
    }
    fn pick<'a, T>(&mut self, xs: &'a [T]) -> &'a T {
        &xs[self.below(xs.len() as u64) as usize]
    }
}

const NARG: u8 = 4;

/// the builder's type-state rules (tla/Builder.tla TypeChecks) -- only used to generate chains the
/// interpreter can express; expectations come from TLC
fn type_checks(form: &str, chain: &[Seg], clone: bool) -> bool {
    let first_is_define_response = form == "some" || form == "next";
    for (i, s) in chain.iter().enumerate() {
        if i + 1 < chain.len() && !(s.q == "once" || s.q == "n") {
            return false;
        }
        if s.q == "atleast" && form == "next" {
            return false;
        }
        if s.k == "val" && !clone && !(i == 0 && first_is_define_response && (s.q == "none" || s.q == "once")) {
            return false;
        }
    }
    !chain.is_empty()
}

fn gen_chain(rng: &mut Rng, m: &str, form: &str) -> Vec<Seg> {
    let kinds: &[&str] = match m {
        "t0" => &["val", "answer", "panic"],
        "b0" => &["val", "answer", "panic"],
        _ => &["val", "val", "default", "answer", "answer_arc", "panic", "unmock", "dflt"],
    };
    loop {
        let n = 1 + rng.below(3) as usize;
        let mut chain = vec![];
        for i in 0..n {
            let last = i + 1 == n;
            let q = if last { *rng.pick(&["none", "none", "once", "n", "atleast"]) } else { *rng.pick(&["once", "n"]) };
            chain.push(Seg { k: rng.pick(kinds).to_string(), q: q.to_string(), n: rng.below(4) as usize });
        }
        if type_checks(form, &chain, m != "t0") {
            return chain;
        }
    }
}

fn gen_pred(rng: &mut Rng) -> Vec<u8> {
    let mask = if rng.below(4) == 0 { (1u64 << NARG) - 1 } else { rng.below(1 << NARG) };
    (0..NARG).filter(|a| mask >> a & 1 == 1).collect()
}

fn gen_config(rng: &mut Rng) -> (bool, Vec<Leaf>) {
    let methods = ["r0", "r1", "r2", "d0", "d1", "t0", "b0"];
    let n = 1 + rng.below(6) as usize;
    let mut leaves = vec![];
    // mostly one mode per method, sometimes a deliberate conflict
    let mut mode: std::collections::HashMap<&str, bool> = Default::default();
    for _ in 0..n {
        let m = *rng.pick(&methods);
        let ordered = *mode.entry(m).or_insert_with(|| rng.below(3) == 0);
        let ordered = if rng.below(25) == 0 { !ordered } else { ordered };
        let form = if ordered { "next" } else { *rng.pick(&["some", "each", "each", "stub"]) };
        let npats = if form == "stub" { rng.below(4) as usize } else { 1 };
        let pats = (0..npats).map(|_| Pat { pred: gen_pred(rng), chain: gen_chain(rng, m, form) }).collect();
        leaves.push(Leaf { m: m.to_string(), form: form.to_string(), pats });
    }
    (rng.below(2) == 0, leaves)
}

fn gen_node(rng: &mut Rng) -> Node {
    let methods = ["r0", "r1", "r2", "d0", "d1", "t0", "b0"];
    let nested = ["r0", "r1", "r2", "t0", "b0"];
    let mut sc = vec![];
    if rng.below(3) == 0 {
        for _ in 0..(1 + rng.below(3)) {
            sc.push(Node { m: rng.pick(&nested).to_string(), a: rng.below(NARG as u64) as u8, sc: vec![], up: false });
        }
    }
    Node { m: rng.pick(&methods).to_string(), a: rng.below(NARG as u64) as u8, sc, up: rng.below(12) == 0 }
}

fn out_json(o: &Obs) -> Value {
    match o {
        Obs::Ret { id, gen } => json!({"k": "ret", "id": id, "gen": gen, "user": false, "class": ""}),
        Obs::MockPanic { class, .. } => json!({"k": "panic", "id": 0, "gen": 0, "user": false, "class": class}),
        Obs::UserPanic => json!({"k": "panic", "id": 0, "gen": 0, "user": true, "class": "user"}),
        Obs::OtherPanic(s) => json!({"k": "panic", "id": 0, "gen": 0, "user": false, "class": format!("harness:{s}")}),
    }
}

fn parse_label(label: &str) -> Option<(usize, usize)> {
    // "(L3P1)"
    let inner = label.strip_prefix("(L")?.strip_suffix(')')?;
    let (l, p) = inner.split_once('P')?;
    Some((l.parse().ok()?, p.parse().ok()?))
}

/// vh drive-mock <trace.ndjson> --seed S --mocks N --calls K
pub fn run_drive(trace_path: &str, seed: u64, mocks: u64, max_calls: u64) -> i32 {
    let mut rng = Rng(seed.wrapping_mul(0x9E3779B97F4A7C15) | 1);
    let mut out = std::io::BufWriter::new(std::fs::File::create(trace_path).expect("trace file"));
    let mut n_calls = 0u64;
    for _ in 0..mocks {
        let (strict, leaves) = gen_config(&mut rng);
        let built = catch_unwind(AssertUnwindSafe(|| {
            let dc = build_clauses(&leaves);
            if strict {
                Unimock::new(dc)
            } else {
                Unimock::new_partial(dc)
            }
        }));
        let u = match built {
            Ok(u) => {
                writeln!(out, "{}", json!({"ev": "new", "strict": strict, "leaves": leaves, "out": "ok"})).unwrap();
                u
            }
            Err(p) => {
                let msg = match crate::replay::payload_to_obs(p) {
                    Obs::MockPanic { msg, .. } => msg,
                    o => format!("{o:?}"),
                };
                writeln!(out, "{}", json!({"ev": "new", "strict": strict, "leaves": leaves, "out": new_err_class(&msg)})).unwrap();
                continue;
            }
        };
        let mut mock_msgs: Vec<String> = vec![];
        let ncalls = rng.below(max_calls + 1);
        for _ in 0..ncalls {
            let mut node = gen_node(&mut rng);
            let (obs, log) = call_top(&u, &node);
            // a script nobody consumed had no effect: log the call without it
            let user_ran = log.iter().any(|e| matches!(e, Event::Run { .. }));
            if !user_ran {
                node.sc.clear();
                node.up = false;
            }
            if let Obs::MockPanic { msg, .. } = &obs {
                mock_msgs.push(msg.clone());
            }
            n_calls += 1;
            writeln!(out, "{}", json!({"ev": "call", "m": node.m, "a": node.a, "sc": node.sc, "up": node.up, "log": log, "out": out_json(&obs)})).unwrap();
        }
        let fin = finish(u, "verify");
        let v = match fin {
            FinishObs::Silent => json!({"k": "silent", "reasons": 0, "lines": [], "never": []}),
            FinishObs::Panic(msg) => {
                let mut rest: &str = &msg;
                let mut found = 0;
                for m in &mock_msgs {
                    if let Some(p) = rest.find(m.as_str()) {
                        rest = &rest[p + m.len()..];
                        found += 1;
                    }
                }
                if !mock_msgs.is_empty() {
                    json!({"k": "fail", "reasons": found, "lines": [], "never": []})
                } else {
                    let mut lines = vec![];
                    let mut never = vec![];
                    for l in msg.split('\n') {
                        match parse_vline(l) {
                            VLine::Pat { path, label, exact, want, got } => match parse_label(&label) {
                                Some((li, pi)) => lines.push(json!({"m": path.trim_start_matches("U::"), "li": li, "pi": pi, "want": want, "exact": exact, "got": got})),
                                None => lines.push(json!({"unparsed": l})),
                            },
                            VLine::Never { path } => never.push(path.trim_start_matches("U::").to_string()),
                            VLine::Unparsed(t) => lines.push(json!({"unparsed": t})),
                        }
                    }
                    json!({"k": "fail", "reasons": 0, "lines": lines, "never": never})
                }
            }
            FinishObs::Code(c) => json!({"k": c, "reasons": 0, "lines": [], "never": []}),
        };
        writeln!(out, "{}", json!({"ev": "verify", "via": "verify", "v": v})).unwrap();
    }
    out.flush().unwrap();
    eprintln!("drive-mock: {mocks} mocks, {n_calls} calls");
    0
}
