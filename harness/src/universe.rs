//! The method universe (DESIGN Appendix A.1): traits declared with the real attribute macro,
//! user code (answers, real functions, default bodies) that follows a thread-local script and
//! logs what it saw.
use crate::vals::*;
use serde::{Deserialize, Serialize};
use std::cell::RefCell;
use unimock::*;

#[derive(Clone, Debug, Deserialize, Serialize, PartialEq)]
pub struct Node {
    pub m: String,
    pub a: u8,
    #[serde(default)]
    pub sc: Vec<Node>,
    #[serde(default)]
    pub up: bool,
}

#[derive(Clone, Debug, Serialize, Deserialize, PartialEq)]
#[serde(tag = "e")]
pub enum Event {
    #[serde(rename = "run")]
    Run { who: String, m: String, a: u8, id: u32 },
    #[serde(rename = "ret")]
    Ret { m: String, id: u32 },
}

thread_local! {
    static SCRIPT: RefCell<Option<(Vec<Node>, bool)>> = const { RefCell::new(None) };
    static LOG: RefCell<Vec<Event>> = const { RefCell::new(Vec::new()) };
    static DEPS: RefCell<Vec<String>> = const { RefCell::new(Vec::new()) };
}

pub fn set_script(sc: Vec<Node>, up: bool) {
    SCRIPT.with(|s| *s.borrow_mut() = Some((sc, up)));
}
pub fn take_script() -> Option<(Vec<Node>, bool)> {
    SCRIPT.with(|s| s.borrow_mut().take())
}
pub fn log(e: Event) {
    LOG.with(|l| l.borrow_mut().push(e));
}
pub fn take_log() -> Vec<Event> {
    LOG.with(|l| std::mem::take(&mut *l.borrow_mut()))
}
pub fn take_deps() -> Vec<String> {
    DEPS.with(|l| std::mem::take(&mut *l.borrow_mut()))
}

/// an argument whose Debug rendering panics (with a user panic) when it carries 7
pub struct PD(pub u8);
impl std::fmt::Debug for PD {
    fn fmt(&self, f: &mut std::fmt::Formatter<'_>) -> std::fmt::Result {
        if self.0 == 7 {
            std::panic::panic_any(crate::vals::UserPanic(7));
        }
        write!(f, "PD({})", self.0)
    }
}

#[unimock(api=UMock, unmock_with=[_, real_r1, _, _, real_d1, _, _, _, _, _, _])]
pub trait U {
    fn r0(&self, a: u8) -> Val;
    fn r1(&self, a: u8) -> Val;
    fn r2(&self, a: u8) -> Val;
    fn d0(&self, a: u8) -> Val {
        Val::new(user_code(self, "default", DFLT_ID, "d0", a))
    }
    fn d1(&self, a: u8) -> Val {
        Val::new(user_code(self, "default", DFLT_ID, "d1", a))
    }
    fn t0(&self, a: u8) -> Tok;
    fn b0(&self, a: u8) -> &Val;
    /// required method whose answer (in the lifecycle mock) lends a value through the instance it is given
    fn lendreq(&self, a: u8) -> Val;
    /// provided method with a pinned receiver: its body reaches `lendreq` through the delegation helper
    fn dp(self: std::pin::Pin<&mut Self>, a: u8) -> Val {
        self.lendreq(a)
    }
    /// (lifecycle mock: answered by `.panics(..)`) the error text renders the argument
    fn pd(&self, x: PD) -> u8;
    /// a composite with two owned non-Clone leaves around a borrowed one: a single-use response made of several slots
    fn tt(&self) -> (Tok, &Val, Tok);
}

pub fn real_r1(dep: &impl U, a: u8) -> Val {
    Val::new(user_code(dep, "real", REAL_ID, "r1", a))
}
pub fn real_d1(dep: &impl U, a: u8) -> Val {
    Val::new(user_code(dep, "real", REAL_ID, "d1", a))
}

/// A generic trait: every instantiation is a distinct method ("g8" = UG<u8>::g, "g16" = UG<u16>::g).
#[unimock(api=UGMock)]
pub trait UG<T> {
    fn g(&self, a: u8) -> Val;
}

pub const METHODS: [&str; 9] = ["r0", "r1", "r2", "d0", "d1", "t0", "b0", "g8", "g16"];

/// Invoke method `node.m` on `dep` with the node's script pending; returns the id of the result.
pub fn call_on<T: U + UG<u8> + UG<u16> + ?Sized>(dep: &T, node: &Node) -> (u32, u32) {
    set_script(node.sc.clone(), node.up);
    let r = match node.m.as_str() {
        "r0" => {
            let v = dep.r0(node.a);
            (v.id, v.gen)
        }
        "r1" => {
            let v = dep.r1(node.a);
            (v.id, v.gen)
        }
        "r2" => {
            let v = dep.r2(node.a);
            (v.id, v.gen)
        }
        "d0" => {
            let v = dep.d0(node.a);
            (v.id, v.gen)
        }
        "d1" => {
            let v = dep.d1(node.a);
            (v.id, v.gen)
        }
        "t0" => {
            let v = dep.t0(node.a);
            (v.id, 0)
        }
        "b0" => {
            let v = dep.b0(node.a);
            (v.id, v.gen)
        }
        "g8" => {
            let v = <T as UG<u8>>::g(dep, node.a);
            (v.id, v.gen)
        }
        "g16" => {
            let v = <T as UG<u16>>::g(dep, node.a);
            (v.id, v.gen)
        }
        other => panic!("harness: unknown method {other}"),
    };
    // a script that nobody consumed must not leak into the next call
    let _ = take_script();
    r
}

/// The body of every piece of user code: log, run the pending script on the dependency, return.
pub fn user_code<T: U + ?Sized>(dep: &T, who: &str, id: u32, m: &str, a: u8) -> u32 {
    user_code_with(who, id, m, a, std::any::type_name::<T>(), &mut |child| call_on_u(dep, child))
}

/// nested calls from user code: the dependency is only known to implement U
pub fn call_on_u<T: U + ?Sized>(dep: &T, node: &Node) -> (u32, u32) {
    set_script(node.sc.clone(), node.up);
    let r = match node.m.as_str() {
        "r0" => {
            let v = dep.r0(node.a);
            (v.id, v.gen)
        }
        "r1" => {
            let v = dep.r1(node.a);
            (v.id, v.gen)
        }
        "r2" => {
            let v = dep.r2(node.a);
            (v.id, v.gen)
        }
        "d0" => {
            let v = dep.d0(node.a);
            (v.id, v.gen)
        }
        "d1" => {
            let v = dep.d1(node.a);
            (v.id, v.gen)
        }
        "t0" => {
            let v = dep.t0(node.a);
            (v.id, 0)
        }
        "b0" => {
            let v = dep.b0(node.a);
            (v.id, v.gen)
        }
        other => panic!("harness: method {other} cannot be called from user code"),
    };
    let _ = take_script();
    r
}

pub fn user_code_with(who: &str, id: u32, m: &str, a: u8, dep_type: &str, call: &mut dyn FnMut(&Node) -> (u32, u32)) -> u32 {
    let (sc, up) = take_script().unwrap_or((Vec::new(), false));
    log(Event::Run { who: who.to_string(), m: m.to_string(), a, id: if who == "answer" { id } else { 0 } });
    DEPS.with(|d| d.borrow_mut().push(dep_type.to_string()));
    for child in &sc {
        let (cid, _gen) = call(child);
        log(Event::Ret { m: child.m.clone(), id: cid });
    }
    if up {
        std::panic::panic_any(UserPanic(id));
    }
    id
}
