------------------------------- MODULE MC_Mock -------------------------------
(***************************************************************************)
(* Bounded instances of Mock.tla.  One TLC run quantifies over             *)
(* configurations (chosen in Init from a family) and over call histories.  *)
(* Emitting instances print every complete behaviour as one JSON line for  *)
(* the replay harness.                                                     *)
(***************************************************************************)
EXTENDS Mock, Json

CONSTANTS
  LeafFam,      \* set of leaves configurations are built from
  MaxLeaves,
  StrictFam,    \* subset of BOOLEAN
  ScriptFam,    \* set of scripts (sequences of nested nodes) user code may run
  UpFam,        \* subset of BOOLEAN: may user code panic
  Vias,         \* final verification entry points
  EmitOn        \* print behaviours

Seg(k, q, n) == [k |-> k, q |-> q, n |-> n]
Pat(pred, chain) == [pred |-> pred, chain |-> chain]
Leaf(m, form, pats) == [m |-> m, form |-> form, pats |-> pats]
Leaf1(m, form, pred, chain) == Leaf(m, form, <<Pat(pred, chain)>>)
N0(m, a) == [m |-> m, a |-> a, sc |-> <<>>, up |-> FALSE]

SeqsUpTo(S, n) == UNION { [1..k -> S] : k \in 0..n }

CfgFam == [strict : StrictFam, leaves : SeqsUpTo(LeafFam, MaxLeaves)]
NodeFam == [m : Method, a : Arg, sc : ScriptFam, up : UpFam]

MCInit == \E c \in CfgFam : InitWith(c)
MCCall(node) ==
  /\ Call(node)
  \* a default body runs on the delegation helper, which implements the required methods only
  /\ (node.sc # <<>> /\ WhoRuns(state, node.m, node.a) = "default") =>
        \A j \in 1..Len(node.sc) : node.sc[j].m \in Required
MCNext == (\E n \in NodeFam : MCCall(n)) \/ (\E via \in Vias : Finish(via))
MCSpec == MCInit /\ [][MCNext]_vars

\* ---- emission: one line per complete behaviour ----
StepOut(h) == IF h.op = "call"
              THEN [op |-> "call", m |-> h.node.m, a |-> h.node.a, sc |-> h.node.sc, up |-> h.node.up,
                    log |-> h.log, out |-> h.out]
              ELSE [op |-> "finish", via |-> h.via, v |-> h.v]
Beh == [strict |-> cfg.strict, leaves |-> cfg.leaves, new |-> newErr,
        steps |-> [j \in 1..Len(hist) |-> StepOut(hist[j])]]
Emit == (EmitOn /\ phase \in {"done", "newerr"}) => PrintT(<<"REPLAY", ToJson(Beh)>>)

\* ---- universe facts (harness/src/universe.rs) ----
UMethods == {"r0", "r1", "r2", "d0", "d1", "t0", "b0"}
cHasDefault == [m \in Method |-> m \in {"d0", "d1"}]
cHasUnmock == [m \in Method |-> m \in {"r1", "d1"}]
cPartialByDef == [m \in Method |-> FALSE]
cRetOwned == [m \in Method |-> m # "b0"]
cRequired == Method \ {"d0", "d1"}
cStrictBoth == BOOLEAN
cStrictOnly == {TRUE}
cNoScripts == {<<>>}
cNoUp == {FALSE}
cViaDrop == {"drop"}

\* ---- menus ----
PredFam == SUBSET Arg

\* C01: chains that get exhausted or over-matched, so that "no matter how often matched before" is exercised
C01Chains == { <<"each", <<Seg("val", "none", 0)>> >>,
               <<"some", <<Seg("val", "none", 0)>> >>,
               <<"each", <<Seg("val", "n", 1)>> >>,
               <<"each", <<Seg("val", "n", 1), Seg("val", "none", 0)>> >>,
               <<"some", <<Seg("answer", "none", 0)>> >>,
               <<"each", <<Seg("val", "atleast", 2)>> >> }
C01Leaves == { Leaf1(m, c[1], p, c[2]) : m \in {"r0", "r1"}, c \in C01Chains, p \in PredFam }
               \cup { Leaf1("r2", "next", Arg, <<Seg("val", "none", 0)>>) }   \* ordered bystander
               \cup { Leaf("r0", "stub", <<Pat(p, <<Seg("val", "none", 0)>>), Pat(q, <<Seg("val", "n", 1)>>)>>) : p, q \in PredFam }
=============================================================================
