------------------------------- MODULE MC_Chain --------------------------------
EXTENDS Chain
CONSTANT PushesPer,    \* pushes per thread
         LentPer       \* calls of the lending method per thread
VARIABLE done,         \* [Thread -> pushes completed or started]
         ldone         \* [Thread -> lending calls completed or started]
mcv == <<chvars, done, ldone>>
MInit == ChInit /\ done = [t \in Thread |-> 0] /\ ldone = [t \in Thread |-> 0]
MBegin(t) == /\ done[t] < PushesPer /\ PushBegin(t, t * 10 + done[t] + 1) /\ done' = [done EXCEPT ![t] = @ + 1] /\ UNCHANGED ldone
MLent(t) == /\ ldone[t] < LentPer /\ LentBegin(t) /\ ldone' = [ldone EXCEPT ![t] = @ + 1] /\ UNCHANGED done
MNext == \E t \in Thread : MBegin(t) \/ MLent(t) \/ ((ChInternal(t) \/ LentEnd(t)) /\ UNCHANGED <<done, ldone>>)
MSpec == MInit /\ [][MNext]_mcv
Quiet == \A t \in Thread : val[t] = 0 /\ done[t] = PushesPer /\ lpos[t] = 0 /\ ldone[t] = LentPer
\* at quiescence the chain holds exactly the pushed ids, one cell each
ChainLinear == Quiet => { cell[i] : i \in 1..MaxCells } \ {0} = { t * 10 + k : t \in Thread, k \in 1..PushesPer }
\* at quiescence, with at least one lending call made, exactly one reference reads the first value
LentFirstOnce == (Quiet /\ LentPer > 0) => Cardinality({ <<t, k>> \in { <<t, k>> \in Thread \X (1..(LentPer)) : k <= Len(lrefs[t]) } : lrefs[t][k][2] = LentIds[1] }) = 1
T2 == {1, 2}
T3 == {1, 2, 3}
=============================================================================
