----------------------------- MODULE MC_Assemble ------------------------------
(***************************************************************************)
(* Cases for C14 (and the compile-time half of C12):                       *)
(*  "tree"  : clause trees (nested tuples, unit clauses) -- deconstruction *)
(*            order = left-to-right listing of the terminal clauses        *)
(*  "seq"   : flat clause lists with inconsistent set-ups at every         *)
(*            position -- the error Assemble reports, before any call      *)
(*  "chain" : builder call chains -- which ones rustc must reject          *)
(* plus the model-internal equalities FlatOK / PermInvariant / ChainOK.    *)
(***************************************************************************)
EXTENDS Assemble, Json, TLC
CONSTANTS CaseKind, MaxDepth, MaxKids, MaxSeq, EmitOn
VARIABLES cs, done

\* ---- trees: leaves are anonymous here; they are numbered left to right ----
L0 == [leaf |-> 0]
Unit == [kids |-> <<>>]
SeqsBetween(S, a, b) == UNION { [1..k -> S] : k \in a..b }
RECURSIVE Trees(_)
Trees(d) == IF d = 0 THEN {L0, Unit}
            ELSE Trees(d - 1) \cup { [kids |-> s] : s \in SeqsBetween(Trees(d - 1), 2, MaxKids) }
\* number the leaves in source order (the statement's "listing left to right")
RECURSIVE Number(_, _), NumberKids(_, _, _)
Number(t, next) == IF IsLeaf(t) THEN [t |-> [leaf |-> next], next |-> next + 1]
                   ELSE LET r == NumberKids(t.kids, 1, next) IN [t |-> [kids |-> r.kids], next |-> r.next]
NumberKids(kids, i, next) ==
  IF i > Len(kids) THEN [kids |-> <<>>, next |-> next]
  ELSE LET a == Number(kids[i], next)
           b == NumberKids(kids, i + 1, a.next)
       IN [kids |-> <<a.t>> \o b.kids, next |-> b.next]
Numbered(t) == Number(t, 1).t
\* deconstruction order (element 0, 1, ... recursively) = 1, 2, ..., n
TreeOK(t) == LET n == Numbered(t)  ls == Leaves(n) IN ls = [i \in 1..Len(ls) |-> i]
FlatTree(n) == [kids |-> [i \in 1..n |-> L0]]
TreeCases == { [kind |-> "tree", tree |-> t] : t \in Trees(MaxDepth) \cup { FlatTree(n) : n \in 2..16 } }

\* ---- flat clause lists with inconsistent set-ups ----
Seg(k, q, n) == [k |-> k, q |-> q, n |-> n]
Pat(pred, chain) == [pred |-> pred, chain |-> chain]
Lf(m, form) == [m |-> m, form |-> form, pats |-> IF form = "stub0" THEN <<>> ELSE <<Pat({0, 1}, <<Seg("val", "none", 0)>>)>>]
Fix(l) == IF l.form = "stub0" THEN [l EXCEPT !.form = "stub"] ELSE l
LfQ(m, form, n) == [m |-> m, form |-> form, pats |-> <<Pat({0, 1}, <<Seg("val", "n", n)>>)>>]
\* explicitly counted clauses, including "exactly no calls" (an ordered clause with an empty slot range is still a clause:
\* it fixes the method's mode and is verified)
SeqLeaves == { Lf(m, f) : m \in {"r0", "r1"}, f \in {"each", "next", "some"} } \cup { Lf("r2", "each"), Lf("r1", "stub0"), Lf("r0", "stub") }
             \cup { LfQ("r0", "next", 0), LfQ("r0", "each", 0), LfQ("r1", "next", 2) }
SeqOf(s) == [i \in 1..Len(s) |-> Fix(s[i])]
\* long tuples: one offending clause pair / empty stub at chosen positions, fillers elsewhere
Long(n, i, j, first) ==
  [k \in 1..n |-> IF k = i THEN Fix(Lf("r0", IF first = "ord" THEN "next" ELSE "each"))
                  ELSE IF k = j THEN Fix(Lf("r0", IF first = "ord" THEN "some" ELSE "next"))
                  ELSE Fix(Lf("r2", "each"))]
LongStub(n, i) == [k \in 1..n |-> IF k = i THEN Fix(Lf("r1", "stub0")) ELSE Fix(Lf("r2", "each"))]
SeqCases == { [kind |-> "seq", leaves |-> SeqOf(s)] : s \in SeqsBetween(SeqLeaves, 1, MaxSeq) }
            \cup { [kind |-> "seq", leaves |-> Long(n, p[1], p[2], f)] : n \in {7, 12, 16}, p \in { q \in (1..16) \X (1..16) : q[1] < q[2] /\ q[2] <= 16 /\ (q[2] - q[1] \in {1, 5} \/ q[1] = 1) }, f \in {"ord", "any"} }
            \cup { [kind |-> "seq", leaves |-> LongStub(n, i)] : n \in {2, 9, 16}, i \in {1, 2, 9, 16} }
ValidSeq(c) == \A k \in 1..Len(c.leaves) : TRUE
SeqCasesOK == { c \in SeqCases : c.kind = "seq" }

\* ---- builder chains ----
Qs == { <<"none", 0>>, <<"once", 0>>, <<"n", 2>>, <<"atleast", 1>> }
Ks == {"val", "answer"}
Ch1 == { <<Seg(k, q[1], q[2])>> : k \in Ks, q \in Qs }
Ch2 == { <<Seg(k1, q1[1], q1[2]), Seg(k2, q2[1], q2[2])>> : k1 \in Ks, k2 \in Ks, q1 \in Qs, q2 \in Qs }
ChainCases == { [kind |-> "chain", form |-> f, chain |-> c, clone |-> cl] : f \in {"some", "each", "next", "stub"}, c \in Ch1 \cup Ch2, cl \in BOOLEAN }

Cases == CASE CaseKind = "tree" -> TreeCases [] CaseKind = "seq" -> SeqCasesOK [] OTHER -> ChainCases

Init == cs \in Cases /\ done = FALSE
Next == ~done /\ done' = TRUE /\ UNCHANGED cs
Spec == Init /\ [][Next]_<<cs, done>>

\* model-internal equalities
ModelOK ==
  CASE cs.kind = "tree"  -> TreeOK(cs.tree)
    [] cs.kind = "seq"   -> FlatOK(cs.leaves) /\ (Len(cs.leaves) <= 4 => PermInvariant(cs.leaves)) /\ AssembleAgrees(cs.leaves, {})
    [] OTHER             -> (TypeChecks(cs.form, cs.chain, cs.clone) => ChainOK(cs.form, cs.chain))
                            /\ (TypeChecks(cs.form, cs.chain, cs.clone) <=>
                                  ~(MultiUseOfNonClone(cs.form, cs.chain, cs.clone) \/ AtLeastInOrdered(cs.form, cs.chain) \/ ThenAfterInexact(cs.chain)))
Out ==
  CASE cs.kind = "tree"  -> [kind |-> "tree", tree |-> Numbered(cs.tree), order |-> Leaves(Numbered(cs.tree))]
    [] cs.kind = "seq"   -> [kind |-> "seq", leaves |-> cs.leaves, new |-> Assemble(cs.leaves, {}).err, offences |-> Offences(cs.leaves, {})]
    [] OTHER             -> [kind |-> "chain", form |-> cs.form, chain |-> cs.chain, clone |-> cs.clone,
                             ok |-> TypeChecks(cs.form, cs.chain, cs.clone),
                             why |-> [nonclone |-> MultiUseOfNonClone(cs.form, cs.chain, cs.clone),
                                      atleast_ordered |-> AtLeastInOrdered(cs.form, cs.chain),
                                      then_after_inexact |-> ThenAfterInexact(cs.chain)]]
Emit == (EmitOn /\ done) => PrintT(<<"CASE", ToJson(Out)>>)
=============================================================================
