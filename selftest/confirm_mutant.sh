#!/bin/bash
# confirm_mutant.sh <worktree> <outdir>: confirms (a) patch applies, (b) 127 tests pass with it,
# (c) demo fails with it, (d) demo passes without it. Prints one JSON line.
WT=$1; OUT=$2
cd $WT || exit 2
git checkout -q -- . ; rm -f tests/demo_x.rs
git apply --check $OUT/patch.diff || { echo "{\"out\":\"$OUT\",\"applies\":false}"; exit 0; }
cp $OUT/demo.rs tests/demo_x.rs
base=$(cargo test --offline $FEAT --test demo_x 2>&1 | grep -E "^test result" | head -1)
git apply $OUT/patch.diff
suite=$(cargo nextest run --workspace --no-fail-fast --test-threads 8 --offline -E 'not binary(demo_x)' 2>&1 | grep -E "Summary|tests run" | tail -1)
mut=$(cargo test --offline $FEAT --test demo_x 2>&1 | grep -E "^test result|error(\[|:)" | head -1)
git checkout -q -- . ; rm -f tests/demo_x.rs
echo "{\"out\":\"$OUT\",\"applies\":true,\"suite_with_patch\":\"$suite\",\"demo_without\":\"$base\",\"demo_with\":\"$mut\"}"
