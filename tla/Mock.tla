-------------------------------- MODULE Mock ---------------------------------
(***************************************************************************)
(* The sequential runtime of unimock: one mock (original + clones share    *)
(* every variable here), calls evaluated as src/eval.rs does, user code    *)
(* (answer functions, registered real functions, default bodies) modelled  *)
(* as scripts of nested calls, teardown verdict as src/teardown.rs and     *)
(* src/fn_mocker.rs compute it.                                            *)
(*                                                                         *)
(* Actions: Construct (in Init), Call(node), Finish(via).                  *)
(* Each Call is the public operation "invoke a trait method on the mock";  *)
(* its linearization points (ordered slot, pattern counter, single-use     *)
(* take, error push) happen inside in program order -- Conc.tla splits     *)
(* them for concurrent callers and re-uses the definitions below.          *)
(***************************************************************************)
EXTENDS Assemble, TLC

CONSTANTS
  Method,        \* method ids of the universe
  Arg,           \* argument domain
  HasDefault,    \* [Method -> BOOLEAN] the trait method has a default body
  HasUnmock,     \* [Method -> BOOLEAN] a real function is registered (unmock_with)
  PartialByDef,  \* [Method -> BOOLEAN] partial by default (TerminationMock::report)
  RetOwned,      \* [Method -> BOOLEAN] output is an owned value (single-use semantics apply)
  Required,      \* methods a default body may call on its delegator (required methods of the trait)
  HasMutexApi,   \* feature set has a mutex (std or spin-lock)
  PoisonArg,     \* an argument value outside Arg on which every input matcher panics (user code inside the matcher)
  HasStd,        \* std feature: teardown can ask std::thread::panicking(); without it the instance remembers that it panicked
  MaxCalls       \* bound on top-level calls

VARIABLES
  cfg,      \* [strict, leaves] as chosen by the environment (immutable)
  tab,      \* assembled method table (immutable); <<>> when construction failed
  newErr,   \* outcome of construction: [k |-> "ok"] or the assembly error
  count,    \* [m -> [pattern index -> matches so far]]
  ordIdx,   \* ordered calls made so far
  taken,    \* set of <<m, i, seg>>: single-use values already moved out
  reasons,  \* sequence of mock-induced error classes (shared panic_reasons)
  origp,    \* (no_std) the original instance itself induced a panic: its verification is disabled
  phase,    \* "run" | "done" | "newerr"
  hist,     \* observation: the steps so far with their outcomes
  ncalls    \* number of top-level calls made (bound)

vars == <<cfg, tab, newErr, count, ordIdx, taken, reasons, origp, phase, hist, ncalls>>
state == [count |-> count, ordIdx |-> ordIdx, taken |-> taken, reasons |-> reasons, origp |-> origp]

Zero(t) == [m \in DOMAIN t |-> [i \in PatIx(t, m) |-> 0]]

(***************************************************************************)
(* Outcomes                                                                *)
(***************************************************************************)
Ret(id, gen)  == [k |-> "ret", id |-> id, gen |-> gen]      \* gen 0 = the stored value itself, 1 = a clone of it
PanicM(class) == [k |-> "panic", user |-> FALSE, class |-> class]   \* mock-induced
PanicU        == [k |-> "panic", user |-> TRUE, class |-> "user"]   \* raised by user code
Run_(who, seg) == [k |-> "run", who |-> who, seg |-> seg]    \* user code must run: answer / real / default

\* ids of values: the value returned by segment seg of pattern pi of leaf li
ValId(p, seg) == p.li * 100 + p.pi * 10 + seg
DefaultId == 9000         \* Val::default()
RealId(m) == 7000         \* + method index, added by the harness; compared as "real"
DfltId(m) == 8000

(***************************************************************************)
(* Selection                                                               *)
(***************************************************************************)
SelectAny(m, a) ==
  LET S == { i \in PatIx(tab, m) : a \in tab[m].pats[i].pred } IN
  IF S = {} THEN 0 ELSE CHOOSE i \in S : \A j \in S : i <= j
OwnerWithin(m, s) ==
  LET S == { i \in PatIx(tab, m) : tab[m].pats[i].lo <= s /\ s < tab[m].pats[i].hi } IN
  IF S = {} THEN 0 ELSE CHOOSE i \in S : \A j \in S : i <= j

\* fallbacks for calls no pattern answers (eval_dyn)
Unmock(m)      == IF HasUnmock[m] THEN Run_("real", 0) ELSE PanicM("CannotUnmock")
DefaultImpl(m) == IF HasDefault[m] THEN Run_("default", 0) ELSE PanicM("NoDefaultImpl")
Unmentioned(m) == IF HasDefault[m] THEN Run_("default", 0)
                  ELSE IF PartialByDef[m] THEN Unmock(m)
                  ELSE IF cfg.strict THEN PanicM("NoMockImplementation")
                  ELSE Unmock(m)
Unmatched(m)   == IF cfg.strict THEN PanicM("NoMatchingCallPatterns") ELSE Unmock(m)

\* respond with pattern i of m at position p; st is the state *before* the counter bump
Respond(st, m, i) ==
  LET pat == tab[m].pats[i]
      p   == st.count[m][i]
      st1 == [st EXCEPT !.count[m][i] = p + 1]
      R(st2, seg, d) == [st |-> st2, sel |-> i, pos |-> p, seg |-> seg, d |-> d]
  IN IF Len(pat.resps) = 0 THEN R(st1, 0, PanicM("NoOutput"))
     ELSE LET seg == pat.resps[Lookup(pat.resps, p)].seg
              s   == pat.chain[seg]
          IN CASE s.k = "val" /\ RetOwned[m] /\ SingleUse(pat.form, seg, s) ->
                    IF <<m, i, seg>> \in st1.taken
                    THEN R(st1, seg, PanicM("CannotReturnValueMoreThanOnce"))
                    ELSE R([st1 EXCEPT !.taken = @ \cup {<<m, i, seg>>}], seg, Ret(ValId(pat, seg), 0))
               [] s.k = "val" /\ RetOwned[m] -> R(st1, seg, Ret(ValId(pat, seg), 1))
               [] s.k = "val"                -> R(st1, seg, Ret(ValId(pat, seg), 0))   \* lent: a reference to the stored value
               [] s.k = "default"            -> R(st1, seg, Ret(DefaultId, 0))
               [] s.k \in {"answer", "answer_arc"} -> R(st1, seg, Run_("answer", ValId(pat, seg)))
               [] s.k = "panic"              -> R(st1, seg, PanicM("ExplicitPanic"))
               [] s.k = "unmock"             -> R(st1, seg, Unmock(m))
               [] OTHER                      -> R(st1, seg, DefaultImpl(m))

\* everything eval() does for one call up to the point where a value is returned, the mock panics,
\* or user code has to run
NoSlot == 999
NoSel(st, d) == [st |-> st, sel |-> 0, pos |-> 0, seg |-> 0, d |-> d]
Dispatch(st, m, a) ==
  IF m \notin DOMAIN tab THEN NoSel(st, Unmentioned(m))
  ELSE IF a = PoisonArg
  THEN \* the first matcher that is evaluated panics: nothing has been counted; an ordered call has
       \* already consumed its slot
       IF tab[m].mode = "any" THEN NoSel(st, PanicU)
       ELSE LET st1 == [st EXCEPT !.ordIdx = @ + 1] IN
            IF OwnerWithin(m, st.ordIdx) = 0 THEN NoSel(st1, PanicM("CallOrderNotMatched")) ELSE NoSel(st1, PanicU)
  ELSE IF tab[m].mode = "any"
  THEN LET i == SelectAny(m, a) IN
       IF i = 0 THEN NoSel(st, Unmatched(m)) ELSE Respond(st, m, i)
  ELSE LET s   == st.ordIdx
           st1 == [st EXCEPT !.ordIdx = s + 1]                 \* the slot is consumed whatever happens next
           i   == OwnerWithin(m, s)
       IN IF i = 0 THEN NoSel(st1, PanicM("CallOrderNotMatched"))
          ELSE IF a \notin tab[m].pats[i].pred
          THEN NoSel(st1, PanicM("InputsNotMatchedInCallOrder"))
          ELSE Respond(st1, m, i)
\* what one dispatch did, for the invariants: method, argument, selected pattern, its position
\* (matches before this one), the ordered slot it consumed (-1: none), the segment that answered
DispRec(st, m, a, r) ==
  [m |-> m, a |-> a, sel |-> r.sel, pos |-> r.pos, seg |-> r.seg, d |-> r.d,
   slot |-> IF m \in DOMAIN tab /\ tab[m].mode = "ord" THEN st.ordIdx ELSE NoSlot]

(***************************************************************************)
(* Calls with user code.  node = [m, a, sc : Seq(node), up : BOOLEAN]      *)
(*  sc = nested calls the user code makes on the dependency it was given,  *)
(*  up = it then panics itself (a user panic, not recorded by the mock).   *)
(* Result: [st, log, out]; log = what user code observed, in order.        *)
(***************************************************************************)
\* onOrig: the call is made on the instance the test holds (top level, or from an answer / real function,
\* which receive that instance); calls a default body makes go through the delegation helper (a clone)
RECURSIVE EvalCallOn(_, _, _), RunScript(_, _, _, _, _, _)
EvalCallOn(st, node, onOrig) ==
  LET r  == Dispatch(st, node.m, node.a)
      dr == DispRec(st, node.m, node.a, r) IN
  CASE r.d.k = "panic" /\ r.d.user ->                              \* a panicking matcher: user code, not recorded
         [st |-> r.st, log |-> <<>>, out |-> r.d, disp |-> <<dr>>]
    [] r.d.k = "panic" ->                                          \* induce_panic: (no_std: set the instance's flag,) push, then panic
         [st |-> [r.st EXCEPT !.reasons = Append(@, r.d.class), !.origp = @ \/ onOrig], log |-> <<>>, out |-> r.d, disp |-> <<dr>>]
    [] r.d.k = "ret" -> [st |-> r.st, log |-> <<>>, out |-> r.d, disp |-> <<dr>>]
    [] OTHER ->
         LET ev == [e |-> "run", who |-> r.d.who, m |-> node.m, a |-> node.a, id |-> r.d.seg]
             b  == RunScript(r.st, node.sc, 1, <<ev>>, <<dr>>, onOrig /\ r.d.who # "default") IN
         IF b.out.k = "panic" THEN [st |-> b.st, log |-> b.log, out |-> b.out, disp |-> b.disp]     \* a nested panic unwinds through
         ELSE IF node.up THEN [st |-> b.st, log |-> b.log, out |-> PanicU, disp |-> b.disp]
         ELSE [st |-> b.st, log |-> b.log, disp |-> b.disp,
               out |-> Ret(IF r.d.who = "answer" THEN r.d.seg ELSE IF r.d.who = "real" THEN RealId(node.m) ELSE DfltId(node.m), 0)]
RunScript(st, sc, j, log, disp, onOrig) ==
  IF j > Len(sc) THEN [st |-> st, log |-> log, disp |-> disp, out |-> [k |-> "fallthrough"]]
  ELSE LET c == EvalCallOn(st, sc[j], onOrig) IN
       IF c.out.k = "panic" THEN [st |-> c.st, log |-> log \o c.log, disp |-> disp \o c.disp, out |-> c.out]
       ELSE RunScript(c.st, sc, j + 1, (log \o c.log) \o <<[e |-> "ret", m |-> sc[j].m, id |-> c.out.id]>>, disp \o c.disp, onOrig)
EvalCall(st, node) == EvalCallOn(st, node, TRUE)

\* does the call run user code at top level (so that a script is meaningful)?
RunsUser(st, m, a) == Dispatch(st, m, a).d.k = "run"
WhoRuns(st, m, a)  == Dispatch(st, m, a).d.who
(***************************************************************************)
(* Verdict of the final verification (teardown + FnMocker::verify)         *)
(***************************************************************************)
Satisfied(pat, c) == CASE pat.ex = "exact"   -> c = pat.min
                       [] pat.ex = "atleast" -> c >= pat.min
                       [] OTHER              -> c >= pat.min + 1
RECURSIVE SumTo(_, _)
SumTo(f, n) == IF n = 0 THEN 0 ELSE f[n] + SumTo(f, n - 1)
Unmet(st) == { o \in AllPats(tab) : ~Satisfied(tab[o[1]].pats[o[2]], st.count[o[1]][o[2]]) }
Dead(st)  == { m \in DOMAIN tab : SumTo(st.count[m], Len(tab[m].pats)) = 0 }
Verdict(st) ==
  IF ~HasStd /\ st.origp THEN [k |-> "silent", reasons |-> <<>>, lines |-> {}, never |-> {}]   \* no_std: verification disabled
  ELSE IF Len(st.reasons) > 0 THEN [k |-> "fail", reasons |-> st.reasons, lines |-> {}, never |-> {}]
  ELSE IF Unmet(st) = {} /\ Dead(st) = {} THEN [k |-> "silent", reasons |-> <<>>, lines |-> {}, never |-> {}]
  ELSE [k |-> "fail", reasons |-> <<>>,
        lines |-> { [m |-> o[1], li |-> tab[o[1]].pats[o[2]].li, pi |-> tab[o[1]].pats[o[2]].pi,
                     want |-> LowerBound(tab[o[1]].pats[o[2]]),
                     exact |-> tab[o[1]].pats[o[2]].ex = "exact",
                     got |-> st.count[o[1]][o[2]]] : o \in Unmet(st) },
        never |-> Dead(st)]

\* methods whose single-use returns() cannot be stored in the current feature set (see Assemble.tla)
NoMutexFor == IF HasMutexApi THEN {} ELSE { m \in Method : RetOwned[m] }

(***************************************************************************)
(* Actions                                                                 *)
(***************************************************************************)
\* the values every variable takes when a mock is constructed from configuration c
InitVals(c) ==
  LET a == Assemble(c.leaves, NoMutexFor) IN
  [cfg |-> c,
   tab |-> IF a.err.k = "ok" THEN a.tab ELSE EmptyTab,
   newErr |-> a.err,
   phase |-> IF a.err.k = "ok" THEN "run" ELSE "newerr",
   count |-> IF a.err.k = "ok" THEN Zero(a.tab) ELSE EmptyTab]
InitWith(c) ==
  LET v == InitVals(c) IN
  /\ cfg = v.cfg /\ tab = v.tab /\ newErr = v.newErr /\ phase = v.phase /\ count = v.count
  /\ ordIdx = 0 /\ taken = {} /\ reasons = <<>> /\ origp = FALSE /\ hist = <<>> /\ ncalls = 0
\* the same as an action (a new mock replaces the current one): used by the trace specification
Construct(c) ==
  LET v == InitVals(c) IN
  /\ cfg' = v.cfg /\ tab' = v.tab /\ newErr' = v.newErr /\ phase' = v.phase /\ count' = v.count
  /\ ordIdx' = 0 /\ taken' = {} /\ reasons' = <<>> /\ origp' = FALSE /\ hist' = <<>> /\ ncalls' = 0

Call(node) ==
  /\ phase = "run" /\ ncalls < MaxCalls
  /\ (node.sc # <<>> \/ node.up) => RunsUser(state, node.m, node.a)
  /\ LET r == EvalCall(state, node) IN
       /\ count' = r.st.count /\ ordIdx' = r.st.ordIdx /\ taken' = r.st.taken /\ reasons' = r.st.reasons /\ origp' = r.st.origp
       /\ hist' = Append(hist, [op |-> "call", node |-> node, log |-> r.log, out |-> r.out, disp |-> r.disp])
  /\ ncalls' = ncalls + 1
  /\ UNCHANGED <<cfg, tab, newErr, phase>>

Finish(via) ==
  /\ phase = "run" /\ phase' = "done"
  /\ hist' = Append(hist, [op |-> "finish", via |-> via, v |-> Verdict(state)])
  /\ UNCHANGED <<cfg, tab, newErr, count, ordIdx, taken, reasons, origp, ncalls>>

(***************************************************************************)
(* Property-shaped invariants, evaluated on every reachable state.         *)
(* AllDisp is the time-ordered list of every dispatch made so far, top     *)
(* level and nested alike.                                                 *)
(***************************************************************************)
Calls == SelectSeq(hist, LAMBDA h : h.op = "call")
RECURSIVE Concat(_, _)
Concat(ss, i) == IF i > Len(ss) THEN <<>> ELSE ss[i].disp \o Concat(ss, i + 1)
AllDisp == Concat(Calls, 1)
IsAny(d) == d.m \in DOMAIN tab /\ tab[d.m].mode = "any"
IsOrd(d) == d.m \in DOMAIN tab /\ tab[d.m].mode = "ord"

\* C01: the pattern selected for an unordered call is the earliest accepting one of that method;
\* with no accepting pattern nothing is selected
FirstMatchOnly ==
  \A j \in 1..Len(AllDisp) : LET d == AllDisp[j] IN IsAny(d) =>
     /\ (d.sel # 0 => /\ d.a \in tab[d.m].pats[d.sel].pred
                      /\ \A i \in 1..(d.sel - 1) : d.a \notin tab[d.m].pats[i].pred)
     /\ (d.sel = 0 => \A i \in PatIx(tab, d.m) : d.a \notin tab[d.m].pats[i].pred)

\* C01/C07: a counter counts exactly the dispatches that selected its pattern: rejecting
\* patterns, other methods and unanswered calls are never counted
CountIsSelections ==
  phase = "run" =>
    \A o \in AllPats(tab) :
       count[o[1]][o[2]] = Cardinality({ j \in 1..Len(AllDisp) : AllDisp[j].m = o[1] /\ AllDisp[j].sel = o[2] })

\* C02: the k-th match of a pattern (position k-1) is answered by the governing segment, wherever
\* the statement defines one; positions handed out are 0,1,2,... in dispatch order
KthResponse ==
  \A j \in 1..Len(AllDisp) : LET d == AllDisp[j] IN d.sel # 0 =>
     LET pat == tab[d.m].pats[d.sel]
         c   == Norm(pat.form, pat.chain) IN
     /\ d.pos = Cardinality({ l \in 1..(j - 1) : AllDisp[l].m = d.m /\ AllDisp[l].sel = d.sel })
     /\ GovDefined(c, d.pos + 1) => d.seg = Governing(c, d.pos + 1)

\* C12 (sequential part): a single-use value is delivered at most once
SingleDelivery ==
  \A t \in taken :
     Cardinality({ j \in 1..Len(AllDisp) : AllDisp[j].m = t[1] /\ AllDisp[j].sel = t[2] /\ AllDisp[j].seg = t[3]
                                            /\ AllDisp[j].d.k = "ret" }) = 1

\* C04: until the first deviating ordered call, the j-th ordered dispatch is slot j of Flat
\* (an ordered call whose matcher panics has consumed its slot without being accepted: it ends the accepted prefix too)
Deviates(d) == d.d.k = "panic" /\ (d.a = PoisonArg \/ d.d.class \in {"CallOrderNotMatched", "InputsNotMatchedInCallOrder"})
OrdDisp == SelectSeq(AllDisp, IsOrd)
OrderedPrefix ==
  LET f == Flat(cfg.leaves) IN
  \A j \in 1..Len(OrdDisp) :
     (\A l \in 1..(j - 1) : ~Deviates(OrdDisp[l])) =>
        LET d == OrdDisp[j] IN
        /\ d.slot = j - 1
        /\ ~Deviates(d) <=> (j <= Len(f) /\ d.m = f[j].m /\ d.a \in f[j].pred)
        /\ ~Deviates(d) => (d.sel # 0 /\ tab[d.m].pats[d.sel].li = f[j].li /\ d.seg = f[j].seg)
\* unordered dispatches never consume slots
SlotsOnlyByOrdered == ordIdx = Len(OrdDisp)

\* C07: unanswered calls -- the decision table as the documentation states it
Unanswered(d) == d.sel = 0 /\ ~(IsOrd(d)) /\ d.a # PoisonArg
FallbackTable ==
  \A j \in 1..Len(AllDisp) : LET d == AllDisp[j] IN Unanswered(d) =>
     IF d.m \notin DOMAIN tab
     THEN d.d = (IF HasDefault[d.m] THEN Run_("default", 0)
                 ELSE IF (~cfg.strict \/ PartialByDef[d.m]) /\ HasUnmock[d.m] THEN Run_("real", 0)
                 ELSE IF ~cfg.strict \/ PartialByDef[d.m] THEN PanicM("CannotUnmock")
                 ELSE PanicM("NoMockImplementation"))
     ELSE d.d = (IF cfg.strict THEN PanicM("NoMatchingCallPatterns")
                 ELSE IF HasUnmock[d.m] THEN Run_("real", 0) ELSE PanicM("CannotUnmock"))
\* the mock never fabricates a value: a "ret" outcome always comes from a selected pattern
NoFabrication == \A j \in 1..Len(AllDisp) : AllDisp[j].d.k = "ret" => AllDisp[j].sel # 0

\* C08: reasons is exactly the sequence of mock-induced panics, in order; user panics are absent
ErrorsRemembered ==
  reasons = [j \in 1..Len(SelectSeq(AllDisp, LAMBDA d : d.d.k = "panic" /\ ~d.d.user)) |->
                SelectSeq(AllDisp, LAMBDA d : d.d.k = "panic" /\ ~d.d.user)[j].d.class]

\* C03: verdict iff; one line per unmet expectation / never-called method, none for satisfied ones
VerdictIff ==
  (phase = "done" /\ hist[Len(hist)].v.reasons = <<>> /\ reasons = <<>>) =>
     LET v == hist[Len(hist)].v IN
     /\ (v.k = "fail") <=> (\E o \in AllPats(tab) :
                               LET e == Expect(Norm(tab[o[1]].pats[o[2]].form, tab[o[1]].pats[o[2]].chain))
                                   c == count[o[1]][o[2]] IN
                               IF e[1] = "exactly" THEN c # e[2] ELSE c < e[2])
                           \/ (\E m \in DOMAIN tab : \A i \in PatIx(tab, m) : count[m][i] = 0)
     /\ Cardinality(v.lines) = Cardinality({ o \in AllPats(tab) :
                               LET e == Expect(Norm(tab[o[1]].pats[o[2]].form, tab[o[1]].pats[o[2]].chain))
                                   c == count[o[1]][o[2]] IN
                               IF e[1] = "exactly" THEN c # e[2] ELSE c < e[2] })
     /\ v.never = { m \in DOMAIN tab : \A i \in PatIx(tab, m) : count[m][i] = 0 }
=============================================================================
