#!/usr/bin/env python3
"""Regenerates /verif/MANIFEST.json from the table below (run after adding a check)."""
import json, os, subprocess
VERIF = os.path.dirname(os.path.dirname(os.path.abspath(__file__)))

MC_NOTE = ("Trusted: TLC and the TLA+ text under tla/ as the statement of intended behaviour; the replay harness "
           "(harness/src) as a faithful executor that compares public observables only; bounds of the instances "
           "listed in the evidence file.")

CHECKS = {
    "C01": ("model_checking", "3.3, 6/C01", "TLC-enumerated configurations x histories of Mock.tla (invariants FirstMatchOnly, CountIsSelections) replayed on the real mock",
            "Exhaustive inside the bounds: every predicate subset, declaration order, exhausted and over-matched chains, strict and partial, all call histories up to the bound; every behaviour is executed against the real builder API and runtime and compared step by step."),
    "C02": ("model_checking", "3.1, 6/C02", "Builder.tla index arithmetic = statement (ChainOK, KthResponse) by TLC; every chain (one to five segments) x history replayed on original and clones; the arithmetic for unbounded counts by Apalache (apalache/BuilderArith.tla)",
            "All well-typed quantifier chains of the family with every response kind, match counts from 0 to beyond the chain's end, ordered/unordered, stub/top-level forms; both the arithmetic-vs-statement equality in the model and the model-vs-code equality by replay."),
    "C03": ("model_checking", "3.3, 6/C03", "TLC invariant VerdictIff on Mock.tla; verdict and verification lines compared with the real drop/verify()/report()",
            "Both directions of the iff are enumerated: counts one below, at and above every bound, every subset of simultaneously violated expectations within the bounds, final verification through all three entry points."),
    "C04": ("model_checking", "3.2, 3.3, 6/C04", "Assemble.tla FlatOK + Mock.tla OrderedPrefix by TLC; from every accepted prefix every next call replayed on the real mock; slot partition for unbounded counts by Apalache",
            "Cumulative slot ranges equal the flattened expected sequence in the model; the real mock accepts exactly the model's prefixes and answers each slot with its response; the first deviation panics with the class the model gives."),
    "C07": ("model_checking", "3.3, 6/C07", "TLC invariants FallbackTable/NoFabrication on Mock.tla; the complete decision table replayed on the universe methods; Shapes.tla FallbackExpected enumerated over receiver kinds as generated traits",
            "The decision table is finite and enumerated completely (strict/partial x unmentioned/unmatched/matched x default/unmock/both/neither x any/ord x position); outcomes (default body ran / real function ran / panic class) and untouched counters are compared with the real code."),
    "C08": ("model_checking", "3.3, 6/C08", "TLC invariant ErrorsRemembered on Mock.tla; every error kind and user panics replayed, final verify() message compared with the observed panic texts",
            "Three engines: (1) every mock-induced error class at every position of short histories with user panics that must not be recorded, the verification message must contain each observed error text in order; (2) errors on the original vs a clone, on the creator thread vs another, caught or not, followed by verify()/report()/drop on the original (Lifecycle.tla); (3) several threads erring concurrently under every schedule, AllErrorsRecorded by trace validation."),
    "C12": ("model_checking", "3.3, 6/C12", "TLC invariant SingleDelivery on Mock.tla; clone/drop counters of every configured value compared after teardown; Conc.tla + every schedule of racing requesters (plain and composite single-use values, repeat-use values) validated by ConcTrace.tla; Shapes.tla cases; must-not-compile chains",
            "Three engines: (1) sequential histories of 0..N requests for single-use and repeat-use values on the original and over clones with clone/drop conservation; (2) owned leaves inside Option/Result/Vec/Poll/tuple composites (Shapes.tla cases as generated programs); (3) 2-4 threads racing for the value under every schedule and free-running, SingleDelivery by trace validation. (Compile-time refusal of multi-use quantifiers on non-Clone values: see C14's compile-fail chains.)"),
    "C15": ("model_checking", "3.3, 6/C15", "Mock.tla default-body frames (scripts of nested required-method calls) enumerated by TLC and replayed through the real default bodies",
            "Two engines: (1) default bodies with scripts of nested required calls on the universe, mixed with direct calls so that counts and ordered slots interleave (Mock.tla frames, replay); (2) every receiver kind (&self, &mut self, by value, Rc, Arc, Pin) x 0-3 required calls x implicit / applies_default_impl() x ordered / counted patterns x sole / shared owner as generated traits (Shapes.tla DelegateExpected). Led to the fix of the solely-owned Rc/Arc defect."),
    "C16": ("model_checking", "3.3, 6/C16", "Mock.tla real-function frames (re-entrant scripts) enumerated by TLC and replayed through the functions registered with unmock_with",
            "Two engines: (1) re-entrant real functions on the universe, recursion depth <= 2, strict and partial (Mock.tla frames, replay); (2) unmock_with in its three forms, every per-method position incl. a non-mockable item in front, &self/&mut self/Pin/by-value receivers, sync/async, fall-through vs applies_unmocked(), nested calls back into the mock (Shapes.tla UnmockExpected, generated traits). Led to the fix of the missing unmock arm for mutable receivers."),
    "C09": ("model_checking", "3.4, 6/C09", "Lifecycle.tla (teardown statement by statement; invariants ClonesNeverVerify, VerifyPanicsIff, ReportAgrees, VerifiedAtMostOnce) checked by TLC; every event sequence replayed on real instances over two threads",
            "All lifecycle event sequences up to the bound over original, clones, helper clones and lent instances on two OS threads; each operation's panic/silence/exit code compared with the model."),
    "C11": ("model_checking", "3.4, 6/C11", "Lifecycle.tla invariant NoDoublePanic (with sensitivity runs for a misplaced guard) by TLC; every crash-point sequence executed for real (the local destroyed by the unwinding plain, boxed, in Rc/Arc, or verified by a fixture's destructor), a process abort is the violation",
            "Panics of six origins x instance topologies x met/unmet expectations x threads are enumerated by TLC and executed; a second panic while unwinding kills the harness process, which the driver attributes to the exact behaviour through a progress file; after caught panics the sequence continues and later verdicts are compared."),
    "C13": ("model_checking", "3.4, 6/C13", "Lifecycle.tla value-chain part (ChainsDisjoint, LiveValsNotGone, StoredWhileShared) by TLC; borrow epochs re-read after every push and drop counters compared after every operation; Chain.tla (try_insert loop and the lending pattern of borrowed returns: RefsOwn, DistinctCells, LentExact, LentOwn) by TLC over all interleavings, and scheduler executions of the real code validated by ChainTrace.tla",
            "Sequences of make_ref epochs / make_mut / lending / delegation / teardown: every reference keeps designating its own value while borrowed, values are destroyed exactly when the model says (once, not before the owner is verified or dropped, earlier only by make_mut). Sequential part; concurrent pushes belong to the scheduler engine."),
    "C18": ("model_checking", "3.2, 3.3, 6/C18", "Assemble.tla PermInvariant by TLC; metamorphic replay of each behaviour under admissible clause reorderings, over clones, on twin mocks, and for two generic instantiations",
            "One expectation from the model for the whole equivalence class: TLC chooses configuration, admissible permutation and history; the real mock is built in the permuted order and driven (a) directly, (b) with calls routed over clones, (c) in lock-step on two independent mocks."),
    "C10": ("model_checking", "3.5, 4.4, 6/C10", "Conc.tla interleavings by TLC (DistinctPositions, VerdictIsSequential; split-counter sensitivity) + all schedules of the real library at its yield points, each execution validated against ConcTrace.tla",
            "The specification is checked for every interleaving of the four linearization points; the implementation is driven through every schedule of small programs by a baton scheduler on the hooked atomics/locks, through random schedules of larger programs, and free-running; acceptance of each execution by the trace specification (TLC infers the unlogged internal steps) is the oracle."),
    "C17": ("exploration", "3.7, 6/C17", "Shapes.tla Store/Output vs statement (TwoDefinitionsAgree) by TLC; TLC-enumerated (type, path, value) cases rendered to #[unimock] traits, built and run against /repo",
            "Model-derived exhaustive case generation inside a stated grammar of return types (Option/Result/Vec/Poll/tuples x owned, non-Clone, &T, &str, &'static): every variant and element count up to the bound, single-use and repeat-use paths, three calls each, address stability of borrowed leaves."),
    "C14": ("exploration", "3.2, 6/C14", "MC_Assemble.tla (Leaves/FlatOK/PermInvariant/TypeChecks) by TLC; clause trees and inconsistent clause lists rendered as static tuples and run; builder chains type-checked by rustc against the type-state automaton; Mock.tla with HasMutexApi = FALSE replayed on the critical-section-only build",
            "Every flat arity 2..16, nested tuples and unit clauses to depth 2, mode conflicts (either order, any distance), counted clauses incl. n_times(0) and empty stubs at every position, rejected inside Unimock::new with one of the reasons Assemble.tla Offences lists (order-independent); single-use returns of owned outputs rejected at construction when no mutex API is compiled in; the must-not-compile chains (at_least on ordered, then after inexact, multi-use of non-Clone) located per function in one cargo check run."),
    "C06": ("exploration", "3.6, 6/C06", "Matching.tla (Sem/Stmt vs generated-closure Macro, invariant MacroIsMatch, raw-splice sensitivity) by TLC; every input rendered as matching!(..) and as a plain Rust match, all argument tuples of the domain, unordered and ordered evaluation",
            "Model-derived exhaustive case generation: for every input of the bounded pattern grammar and every argument tuple of the finite domain the macro's accept/reject (diagnostics off and on) must equal the model's, and rustc's own match must agree with the model (three-way). Found and led to the fix of the unparenthesised-guard defect."),
    "C19": ("exploration", "3.6, 3.7, 6/C19", "Shapes.tla RenderArg/CallText/PatSrc and Matching.tla MismatchPositions enumerated by TLC; generated traits and scenarios per (shape, error kind); panic messages parsed structurally",
            "Model-derived exhaustive case generation: method shapes x ten error scenarios with pairwise-distinct argument values (call rendering, '?' for non-Debug, pattern source text and file:line), and for every guard-free single-alternative pattern of the Matching grammar x every rejected tuple the exact set of reported argument positions."),
    "C05": ("exploration", "3.7, 6/C05", "Shapes.tla Forward (valid shapes and expected matcher view / answer view / write-back / return) enumerated by TLC; one generated #[unimock] trait per shape with recording matcher guard and answer, sync and async scenarios",
            "Model-derived case generation over receiver x parameter list x return kind x async form x api form x method generics with pairwise-distinct values; quick = seeded pairwise-covering subset, thorough = up to 2500 shapes; async shapes check evaluation at first poll only and not at all when dropped unpolled."),
    "C20": ("exploration", "3.7, 6/C20", "Shapes.tla Mirrors (required/provided table, BasisIsRequired) by TLC; wiring case per required method and seeded differential runs of a Unimock vs a plain struct through every upstream provided method",
            "Every method of the mirrored core/std/tokio/futures-io/embedded-hal traits (70 rows) must be exercised (the driver refuses to pass otherwise): required methods answered by their own entry point, provided methods run through the upstream default body over scripted required methods in strict and partial mocks, with results, buffers and the sequence of required-method calls equal to a plain struct's."),
}

NOT_YET = {
}

GENPROG = ("C05", "C06", "C14", "C17", "C19", "C20")


def main():
    checks = []
    for pid, (cat, ref, tech, text) in sorted(CHECKS.items()):
        checks.append({
            "property_id": pid,
            "quick_cmd": "bin/check %s --tier quick" % pid,
            "thorough_cmd": "bin/check %s --tier thorough" % pid,
            "evidence_file": "evidence/%s.json" % pid,
            "replay_cmd_template": "bin/check %s --replay {path}" % pid,
            "engine": "tla-lifecycle" if pid in ("C09", "C11", "C13") else ("tla-conc-trace" if pid in ("C10",) else ("tla-genprog" if pid in GENPROG else "tla-replay")),
            "level_claimed": {"category": cat, "text": text, "design_ref": "DESIGN.md section " + ref},
            "level_note": MC_NOTE,
            "technique": tech,
        })
    all_ids = ["C%02d" % i for i in range(1, 21)]
    na = [{"property_id": p, "reason": NOT_YET.get(p, "check under construction in this round; not claimed yet (the technique applies, see DESIGN.md section 6)")}
          for p in all_ids if p not in CHECKS]
    hooks_commits = subprocess.run(["git", "-C", "/repo", "log", "--format=%H", "--grep=^verif hooks"], capture_output=True, text=True).stdout.split()
    m = {
        "version": 1,
        "setup_cmd": "cd harness && cargo build --offline",
        "hooks": {
            "guard": "--cfg unimock_verif",
            "enable": "harness/.cargo/config.toml sets rustflags = [\"--cfg\", \"unimock_verif\"]; the harness depends on /repo by path, so every check rebuilds from the working tree with the hooks on",
            "baseline_off_cmd": "cd /repo && cargo nextest run --workspace --no-fail-fast --test-threads 8 --offline || (cd /repo && cargo test --workspace --no-fail-fast --offline)",
            "source_commits": hooks_commits,
            "add_only": True,
        },
        "engines": [
            {"name": "tla-genprog", "path": "tla/Shapes.tla, tla/MC_Shapes.tla, lib/gen.py, lib/gen_*.py, gen/prelude.rs",
             "serves_properties": ["C05", "C06", "C14", "C15", "C16", "C17", "C19", "C20", "C12"],
             "kind_free_text": "TLC enumerates cases of a shape grammar with their expected observation; Python renders them to Rust programs built against /repo; observations are compared with the model's expectation"},
            {"name": "tla-conc-trace", "path": "tla/Conc.tla, tla/MC_Conc.tla, tla/ConcTrace.tla, harness/src/conc.rs, lib/engines.py",
             "serves_properties": ["C10", "C08", "C12", "C13"],
             "kind_free_text": "exhaustive interleavings of the specification (calls split at their linearization points; the value chain's try_insert loop in Chain.tla); controlled scheduler (all schedules) and stress on the real code, also on the no_std + spin-lock build, with trace validation by TLC (ConcTrace.tla, ChainTrace.tla)"},
            {"name": "tla-trace", "path": "tla/MockTrace.tla, tla/TestTrace.tla, harness/src/drive.rs, hooks/h3_trace.patch, lib/engines.py",
             "serves_properties": ["C01", "C02", "C03", "C04"],
             "kind_free_text": "code -> spec: a seeded random driver (and, in the thorough tier, the repository's own test suite built with an event hook on a scratch copy) produces event logs of the real mock; TLC accepts a log only if it is a behaviour of Mock.tla with all invariants holding in every state"},
            {"name": "apalache-arith", "path": "tla/apalache/BuilderArith.tla, lib/engines.py",
             "serves_properties": ["C02", "C04"],
             "kind_free_text": "Apalache (SMT, unbounded integers) decides the builder / assembler index arithmetic for all natural counts; an off-by-one variant must be refuted"},
            {"name": "tla-lifecycle", "path": "tla/Lifecycle.tla, tla/MC_Life.tla, harness/src/life.rs, lib/engines.py",
             "serves_properties": ["C09", "C11", "C13"],
             "kind_free_text": "TLC enumerates lifecycle event sequences (instances, threads, unwinding, value chains); the harness executes them on real instances across two OS threads; process aborts are detected by the driver"},
            {"name": "tla-replay", "path": "tla/Mock.tla, tla/MC_Mock.tla, harness/src/replay.rs, lib/engines.py",
             "serves_properties": sorted(set(k for k in CHECKS.keys() if k not in ("C09", "C10", "C13") and k not in GENPROG) | {"C14"}),
             "kind_free_text": "TLC enumerates complete behaviours of the specification (configuration x history) and prints them; the Rust harness builds the real mock through the real builder API and compares every step"},
        ],
        "checks": checks,
        "notes": "All checks: cwd /verif, honour VERIF_SEED/VERIF_TIER, exit 2 for tool errors. See DESIGN.md.",
        "not_applicable": na,
    }
    with open(os.path.join(VERIF, "MANIFEST.json"), "w") as f:
        json.dump(m, f, indent=1)

if __name__ == "__main__":
    main()
