//! Replay (spec -> code): step TLC-emitted behaviours of Mock.tla through the real mock and
//! compare every observable with the model's expectation.
use crate::chain::*;
use crate::classify::*;
use crate::universe::*;
use crate::vals::*;
use serde::{Deserialize, Serialize};
use serde_json::{json, Value};
use std::io::BufRead;
use std::panic::{catch_unwind, AssertUnwindSafe};
use unimock::*;

#[derive(Clone, Debug, Deserialize, Serialize)]
pub struct Out {
    pub k: String,
    #[serde(default)]
    pub id: u32,
    #[serde(default)]
    pub gen: u32,
    #[serde(default)]
    pub user: bool,
    #[serde(default)]
    pub class: String,
}

#[derive(Clone, Debug, Deserialize, Serialize)]
pub struct ELine {
    pub m: String,
    pub li: usize,
    pub pi: usize,
    pub want: u64,
    pub exact: bool,
    pub got: u64,
}
#[derive(Clone, Debug, Deserialize, Serialize)]
pub struct Verdict {
    pub k: String,
    #[serde(default)]
    pub reasons: Vec<String>,
    #[serde(default)]
    pub lines: Vec<ELine>,
    #[serde(default)]
    pub never: Vec<String>,
}
#[derive(Clone, Debug, Deserialize, Serialize)]
pub struct Step {
    pub op: String,
    #[serde(default)]
    pub m: String,
    #[serde(default)]
    pub a: u8,
    #[serde(default)]
    pub sc: Vec<Node>,
    #[serde(default)]
    pub up: bool,
    #[serde(default)]
    pub log: Vec<Event>,
    pub out: Option<Out>,
    #[serde(default)]
    pub via: String,
    pub v: Option<Verdict>,
    /// which instance makes the call: 0 = original, k = clone k (C18 routing); default 0
    #[serde(default)]
    pub inst: usize,
}
#[derive(Clone, Debug, Deserialize, Serialize)]
pub struct NewErr {
    pub k: String,
    #[serde(default)]
    pub m: String,
}
#[derive(Clone, Debug, Deserialize, Serialize)]
pub struct Beh {
    pub strict: bool,
    pub leaves: Vec<Leaf>,
    pub new: NewErr,
    /// every reason this clause list must be rejected for (Assemble.tla Offences); empty when it is consistent
    #[serde(default)]
    pub offs: Vec<NewErr>,
    pub steps: Vec<Step>,
    /// number of clones to create up front (C18 routing)
    #[serde(default)]
    pub clones: usize,
    /// order in which the clauses are listed when the mock is built (C18); empty = as given
    #[serde(default)]
    pub perm: Vec<usize>,
    /// per configured returns(v): expected deliveries (checked against clone/drop counters)
    #[serde(default)]
    pub vals: Vec<ValRep>,
}
#[derive(Clone, Debug, Deserialize, Serialize)]
pub struct ValRep {
    pub id: u32,
    pub owned: bool,
    pub single: bool,
    pub delivered: u32,
}

/// What the real code did for one top-level call.
#[derive(Clone, Debug, Serialize)]
pub enum Obs {
    Ret { id: u32, gen: u32 },
    MockPanic { class: &'static str, msg: String },
    UserPanic,
    OtherPanic(String),
}

pub fn payload_to_obs(p: Box<dyn std::any::Any + Send>) -> Obs {
    if p.downcast_ref::<UserPanic>().is_some() {
        Obs::UserPanic
    } else if let Some(s) = p.downcast_ref::<String>() {
        if s.starts_with("harness:") {
            Obs::OtherPanic(s.clone())
        } else {
            Obs::MockPanic { class: class_of(s), msg: s.clone() }
        }
    } else if let Some(s) = p.downcast_ref::<&'static str>() {
        if s.starts_with("harness:") {
            Obs::OtherPanic(s.to_string())
        } else {
            Obs::MockPanic { class: class_of(s), msg: s.to_string() }
        }
    } else {
        Obs::OtherPanic("non-string payload".to_string())
    }
}

pub fn call_top(u: &Unimock, node: &Node) -> (Obs, Vec<Event>) {
    let _ = take_log();
    let _ = take_deps();
    let r = catch_unwind(AssertUnwindSafe(|| call_on(u, node)));
    let _ = take_script();
    let log = take_log();
    match r {
        Ok((id, gen)) => (Obs::Ret { id, gen }, log),
        Err(p) => (payload_to_obs(p), log),
    }
}

/// `Trait::method` as the library prints it for a method id of the universe
pub fn path_of(m: &str) -> String {
    match m {
        "g8" | "g16" => "UG::g".to_string(),
        m => format!("U::{m}"),
    }
}

#[derive(Default, Serialize)]
pub struct Stats {
    pub behaviours: u64,
    pub steps: u64,
    pub calls: u64,
    pub construct_errors: u64,
    pub mock_panics: u64,
    pub user_panics: u64,
    pub verdict_fail: u64,
    pub verdict_silent: u64,
    pub with_user_code: u64,
    pub divergences: u64,
    pub drift: u64,
    pub distinct_configs: u64,
    pub with_calls: u64,
}

#[derive(Serialize, Clone)]
pub struct Divergence {
    pub what: String,
    pub step: usize,
    pub expected: Value,
    pub observed: Value,
    pub beh: Value,
    pub in_scope: bool,
}

fn cmp_out(exp: &Out, obs: &Obs) -> Result<(), (bool, String)> {
    // Err((in_scope, why))
    match (exp.k.as_str(), obs) {
        ("ret", Obs::Ret { id, gen }) => {
            let eid = exp.id;
            if eid != *id {
                Err((true, format!("returned value id {id}, expected {eid}")))
            } else if (exp.gen == 0) != (*gen == 0) {
                // gen 0: the configured value itself (moved out); otherwise some clone of it, however many hops away
                Err((true, format!("value id {id} returned with clone generation {gen}, expected {}", exp.gen)))
            } else {
                Ok(())
            }
        }
        ("panic", Obs::UserPanic) if exp.user => Ok(()),
        ("panic", Obs::MockPanic { class, .. }) if !exp.user => {
            if *class == exp.class {
                Ok(())
            } else if *class == "other" {
                Err((false, format!("mock-induced panic of unrecognised wording, expected class {}", exp.class)))
            } else {
                Err((true, format!("mock-induced panic of class {class}, expected {}", exp.class)))
            }
        }
        _ => Err((true, "different kind of outcome".to_string())),
    }
}

pub struct Replayer {
    pub stats: Stats,
    pub divs: Vec<Divergence>,
    pub max_divs: usize,
    pub samples: Vec<Value>,
    pub cfg_seen: std::collections::HashSet<u64>,
}

fn hash_str(s: &str) -> u64 {
    use std::hash::{Hash, Hasher};
    let mut h = std::collections::hash_map::DefaultHasher::new();
    s.hash(&mut h);
    h.finish()
}

impl Replayer {
    pub fn new() -> Self {
        Replayer { stats: Stats::default(), divs: vec![], max_divs: 20, samples: vec![], cfg_seen: Default::default() }
    }

    fn diverge(&mut self, beh: &Beh, step: usize, what: &str, in_scope: bool, expected: Value, observed: Value) {
        if in_scope {
            self.stats.divergences += 1;
        } else {
            self.stats.drift += 1;
        }
        if self.divs.iter().filter(|d| d.in_scope == in_scope).count() < self.max_divs {
            self.divs.push(Divergence {
                what: what.to_string(),
                step,
                expected,
                observed,
                beh: serde_json::to_value(beh).unwrap(),
                in_scope,
            });
        }
    }

    /// Returns true if the behaviour was reproduced.
    pub fn replay(&mut self, beh: &Beh) -> bool {
        self.stats.behaviours += 1;
        let before = self.stats.divergences;
        let ck = hash_str(&serde_json::to_string(&(&beh.strict, &beh.leaves)).unwrap());
        if self.cfg_seen.insert(ck) {
            self.stats.distinct_configs += 1;
        }
        for l in 1..=beh.leaves.len() {
            for p in 1..=beh.leaves[l - 1].pats.len() {
                for g in 1..=beh.leaves[l - 1].pats[p - 1].chain.len() {
                    reset_id(val_id(l, p, g));
                }
            }
        }
        if beh.steps.iter().any(|s| s.op == "call") {
            self.stats.with_calls += 1;
        }
        // 1. construction through the real builder API
        let built = catch_unwind(AssertUnwindSafe(|| {
            let dc = if beh.perm.is_empty() { build_clauses(&beh.leaves) } else { build_clauses_perm(&beh.leaves, &beh.perm) };
            if beh.strict {
                Unimock::new(dc)
            } else {
                Unimock::new_partial(dc)
            }
        }));
        let u = match built {
            Err(p) => {
                let msg = match payload_to_obs(p) {
                    Obs::MockPanic { msg, .. } => msg,
                    o => format!("{o:?}"),
                };
                let cls = new_err_class(&msg);
                self.stats.construct_errors += 1;
                // any one of the reasons the clause list must be rejected for is a correct report
                let mut allowed: Vec<&NewErr> = beh.offs.iter().collect();
                if allowed.is_empty() {
                    allowed.push(&beh.new);
                }
                let reports = |e: &NewErr| cls == e.k && (cls != "ModeConflict" || e.m.is_empty() || msg.contains(&path_of(&e.m)));
                if beh.new.k == "ok" || (cls != "other" && !allowed.iter().any(|e| cls == e.k)) {
                    self.diverge(beh, 0, "construction", true, json!(beh.new), json!({"panic": msg}));
                } else if cls == "other" {
                    self.diverge(beh, 0, "construction wording", false, json!(beh.new), json!({"panic": msg}));
                } else if !allowed.iter().any(|e| reports(e)) {
                    self.diverge(beh, 0, "construction error names another method", true, json!(beh.new), json!({"panic": msg}));
                }
                return self.stats.divergences == before;
            }
            Ok(u) => u,
        };
        if beh.new.k != "ok" {
            self.diverge(beh, 0, "construction", true, json!(beh.new), json!("constructed without error"));
            // nothing else is specified for this behaviour
            let _ = catch_unwind(AssertUnwindSafe(move || drop(u.no_verify_in_drop())));
            return false;
        }
        let mut clones: Vec<Unimock> = (0..beh.clones).map(|_| u.clone()).collect();
        let mut u = Some(u);
        let mut mock_msgs: Vec<String> = vec![];
        // 2. steps
        for (si, step) in beh.steps.iter().enumerate() {
            self.stats.steps += 1;
            match step.op.as_str() {
                "call" => {
                    self.stats.calls += 1;
                    let node = Node { m: step.m.clone(), a: step.a, sc: step.sc.clone(), up: step.up };
                    let target: &Unimock = if step.inst == 0 { u.as_ref().unwrap() } else { &clones[step.inst - 1] };
                    let (obs, log) = call_top(target, &node);
                    match &obs {
                        Obs::MockPanic { msg, .. } => {
                            self.stats.mock_panics += 1;
                            mock_msgs.push(msg.clone());
                        }
                        Obs::UserPanic => self.stats.user_panics += 1,
                        _ => {}
                    }
                    if !log.is_empty() {
                        self.stats.with_user_code += 1;
                    }
                    let exp = step.out.as_ref().expect("call step without expectation");
                    if let Err((scope, why)) = cmp_out(exp, &obs) {
                        self.diverge(beh, si + 1, &format!("call outcome: {why}"), scope, json!(exp), json!(obs));
                        if scope {
                            break;
                        }
                    }
                    if log != step.log {
                        self.diverge(beh, si + 1, "what user code observed", true, json!(step.log), json!(log));
                        break;
                    }
                }
                "finish" => {
                    let v = step.v.as_ref().expect("finish without verdict");
                    let orig = u.take().unwrap();
                    // clones must be gone before the original verifies (C09 covers the other case)
                    clones.clear();
                    let r = finish(orig, &step.via);
                    self.check_verdict(beh, si + 1, v, &r, &mock_msgs);
                    // C12: the mock is gone now; every configured value was constructed once, never cloned if it is
                    // single-use or lent, cloned at least once per delivery otherwise (how many intermediate copies
                    // the library makes is its own business), and every copy was dropped exactly once
                    for vr in &beh.vals {
                        let (made, clones_n, drops) = counts(vr.id);
                        let exp_clones = if vr.owned && !vr.single { vr.delivered } else { 0 };
                        let clones_ok = if !vr.owned || vr.single { clones_n == 0 } else { clones_n >= exp_clones };
                        if made != 1 || !clones_ok || drops != made + clones_n {
                            self.diverge(beh, si + 1, "value conservation (constructed, cloned, dropped)", true,
                                json!({"id": vr.id, "made": 1, "clones": exp_clones, "drops": 1 + exp_clones}),
                                json!({"id": vr.id, "made": made, "clones": clones_n, "drops": drops}));
                        }
                    }
                    break;
                }
                other => panic!("harness: unknown step {other}"),
            }
        }
        clones.clear();
        if let Some(orig) = u.take() {
            // behaviour ended without a finish step (construction-only or aborted after divergence)
            let _ = catch_unwind(AssertUnwindSafe(move || drop(orig.no_verify_in_drop())));
        }
        let ok = self.stats.divergences == before;
        if ok && self.samples.len() < 3 && beh.steps.len() >= 3 {
            self.samples.push(serde_json::to_value(beh).unwrap());
        }
        ok
    }

    /// C18: two independent mocks built from the same clauses, driven step by step in lock-step;
    /// each must behave exactly as the model says a single mock does (distinct mocks share nothing).
    pub fn replay_twin(&mut self, beh: &Beh) -> bool {
        self.stats.behaviours += 1;
        let before = self.stats.divergences;
        let build = || {
            catch_unwind(AssertUnwindSafe(|| {
                let dc = if beh.perm.is_empty() { build_clauses(&beh.leaves) } else { build_clauses_perm(&beh.leaves, &beh.perm) };
                if beh.strict {
                    Unimock::new(dc)
                } else {
                    Unimock::new_partial(dc)
                }
            }))
        };
        let (a, b) = match (build(), build()) {
            (Ok(a), Ok(b)) => (a, b),
            _ => return true, // construction errors are covered by the single-mock replay
        };
        let mut mocks = [Some(a), Some(b)];
        let mut msgs: [Vec<String>; 2] = [vec![], vec![]];
        'steps: for (si, step) in beh.steps.iter().enumerate() {
            match step.op.as_str() {
                "call" => {
                    let node = Node { m: step.m.clone(), a: step.a, sc: step.sc.clone(), up: step.up };
                    for k in 0..2 {
                        let (obs, log) = call_top(mocks[k].as_ref().unwrap(), &node);
                        if let Obs::MockPanic { msg, .. } = &obs {
                            msgs[k].push(msg.clone());
                        }
                        let exp = step.out.as_ref().unwrap();
                        if let Err((scope, why)) = cmp_out(exp, &obs) {
                            self.diverge(beh, si + 1, &format!("twin mock {k}: call outcome: {why}"), scope, json!(exp), json!(obs));
                            if scope {
                                break 'steps;
                            }
                        }
                        if log != step.log {
                            self.diverge(beh, si + 1, &format!("twin mock {k}: what user code observed"), true, json!(step.log), json!(log));
                            break 'steps;
                        }
                    }
                }
                "finish" => {
                    let v = step.v.as_ref().unwrap();
                    for k in 0..2 {
                        let r = finish(mocks[k].take().unwrap(), &step.via);
                        let m = std::mem::take(&mut msgs[k]);
                        self.check_verdict(beh, si + 1, v, &r, &m);
                    }
                }
                _ => {}
            }
        }
        for m in mocks.iter_mut() {
            if let Some(orig) = m.take() {
                let _ = catch_unwind(AssertUnwindSafe(move || drop(orig.no_verify_in_drop())));
            }
        }
        self.stats.divergences == before
    }

    fn check_verdict(&mut self, beh: &Beh, si: usize, v: &Verdict, r: &FinishObs, mock_msgs: &[String]) {
        match (v.k.as_str(), r) {
            ("silent", FinishObs::Silent) => self.stats.verdict_silent += 1,
            ("silent", FinishObs::Code(c)) if c.contains("0") && !c.contains("1") => self.stats.verdict_silent += 1,
            ("fail", FinishObs::Code(c)) if c.contains("1") => self.stats.verdict_fail += 1,
            ("fail", FinishObs::Panic(msg)) => {
                self.stats.verdict_fail += 1;
                if !v.reasons.is_empty() {
                    // C08: the message contains the text of every recorded error
                    if mock_msgs.len() != v.reasons.len() {
                        self.diverge(beh, si, "number of mock-induced panics observed", true, json!(v.reasons), json!(mock_msgs));
                        return;
                    }
                    let mut rest: &str = msg;
                    for m in mock_msgs {
                        match rest.find(m.as_str()) {
                            Some(p) => rest = &rest[p + m.len()..],
                            None => {
                                self.diverge(beh, si, "verification message lacks a recorded error (in order)", true, json!(m), json!(msg));
                                return;
                            }
                        }
                    }
                    if *msg != mock_msgs.join("\n") {
                        self.diverge(beh, si, "verification message is not exactly the recorded errors", false, json!(mock_msgs), json!(msg));
                    }
                } else {
                    let mut exp: Vec<VLine> = v
                        .lines
                        .iter()
                        .map(|l| VLine::Pat { path: path_of(&l.m), label: label(l.li, l.pi), exact: l.exact, want: l.want, got: l.got })
                        .chain(v.never.iter().map(|m| VLine::Never { path: path_of(m) }))
                        .collect();
                    let mut got: Vec<VLine> = msg.split('\n').map(parse_vline).collect();
                    exp.sort();
                    got.sort();
                    if exp != got {
                        self.diverge(beh, si, "verification lines", true, json!(exp), json!(got));
                    }
                }
            }
            _ => {
                self.diverge(beh, si, "final verification", true, json!(v), json!(format!("{r:?}")));
            }
        }
    }
}

#[derive(Debug)]
pub enum FinishObs {
    Silent,
    Panic(String),
    Code(String),
}

pub fn finish(orig: Unimock, via: &str) -> FinishObs {
    let r = match via {
        "drop" => catch_unwind(AssertUnwindSafe(move || {
            drop(orig);
            None
        })),
        "verify" => catch_unwind(AssertUnwindSafe(move || {
            orig.verify();
            None
        })),
        #[cfg(feature = "std")]
        "report" => catch_unwind(AssertUnwindSafe(move || {
            use std::process::Termination;
            Some(format!("{:?}", orig.report()))
        })),
        v => panic!("harness: unknown via {v}"),
    };
    match r {
        Ok(None) => FinishObs::Silent,
        Ok(Some(code)) => FinishObs::Code(code),
        Err(p) => match payload_to_obs(p) {
            Obs::MockPanic { msg, .. } => FinishObs::Panic(msg),
            o => FinishObs::Panic(format!("{o:?}")),
        },
    }
}

/// Extract the JSON document from a TLC output line `<<"REPLAY", "...">>`.
pub fn extract(line: &str) -> Option<String> {
    let rest = line.strip_prefix("<<\"REPLAY\", ")?;
    let lit = rest.strip_suffix(">>")?;
    serde_json::from_str::<String>(lit).ok()
}

pub struct Opts {
    pub raw: bool,
    /// replay every behaviour a second time with calls routed over this many clones
    pub clones: usize,
    pub seed: u64,
    pub tlc_log: Option<String>,
    /// additionally replay every behaviour on two independent mocks in lock-step
    pub twin: bool,
    /// replace the entry point of the final verification (round-robin over these) instead of the model's
    pub vias: Vec<String>,
}

pub fn run_replay(input: &mut dyn BufRead, out_path: &str, opts: &Opts) -> i32 {
    use std::io::Write;
    let raw = opts.raw;
    let mut rng = opts.seed.wrapping_mul(0x9E3779B97F4A7C15) | 1;
    let mut next = move || {
        rng ^= rng << 13;
        rng ^= rng >> 7;
        rng ^= rng << 17;
        rng
    };
    let mut tlc_log = opts.tlc_log.as_ref().map(|p| std::fs::File::create(p).expect("tlc log"));
    let mut routed = 0u64;
    let mut rp = Replayer::new();
    let mut bad_lines = 0u64;
    let mut line = String::new();
    loop {
        line.clear();
        match input.read_line(&mut line) {
            Ok(0) => break,
            Ok(_) => {}
            Err(e) => {
                eprintln!("harness: read error {e}");
                return 2;
            }
        }
        let l = line.trim_end();
        let doc = if raw {
            if l.is_empty() {
                continue;
            }
            l.to_string()
        } else {
            match extract(l) {
                Some(d) => d,
                None => {
                    if let Some(f) = tlc_log.as_mut() {
                        let _ = writeln!(f, "{l}");
                    }
                    continue;
                }
            }
        };
        match serde_json::from_str::<Beh>(&doc) {
            Ok(mut beh) => {
                if !opts.vias.is_empty() {
                    let n = rp.stats.behaviours as usize;
                    for st in beh.steps.iter_mut() {
                        if st.op == "finish" {
                            st.via = opts.vias[n % opts.vias.len()].clone();
                        }
                    }
                }
                rp.replay(&beh);
                if opts.clones > 0 && beh.new.k == "ok" && beh.steps.iter().any(|s| s.op == "call") {
                    // C18/C02: clones share everything -- the same expectations must hold when the calls
                    // are routed over the original and its clones
                    let mut b2 = beh.clone();
                    b2.clones = opts.clones;
                    for st in b2.steps.iter_mut() {
                        st.inst = (next() % (opts.clones as u64 + 1)) as usize;
                    }
                    rp.replay(&b2);
                    routed += 1;
                }
                if opts.twin && beh.new.k == "ok" {
                    rp.replay_twin(&beh);
                }
            }
            Err(e) => {
                bad_lines += 1;
                if bad_lines < 5 {
                    eprintln!("harness: cannot parse behaviour: {e}: {}", &doc[..doc.len().min(300)]);
                }
            }
        }
    }
    let result = json!({
        "stats": rp.stats,
        "bad_lines": bad_lines,
        "routed_over_clones": routed,
        "divergences": rp.divs,
        "samples": rp.samples,
    });
    std::fs::write(out_path, serde_json::to_string_pretty(&result).unwrap()).unwrap();
    if bad_lines > 0 {
        2
    } else if rp.stats.divergences > 0 {
        1
    } else {
        0
    }
}
