-------------------------------- MODULE Chain ---------------------------------
(***************************************************************************)
(* The value chain of one instance under concurrent make_ref through a     *)
(* shared &Unimock (src/value_chain.rs push_node): an append-only list of  *)
(* once-cells; a pusher walks from the root and try_inserts its node into  *)
(* each cell until one insert succeeds; the reference it gets back         *)
(* designates the node it inserted.                                        *)
(* PushImpl = "try_insert" (the code) | "find_then_fill" (sensitivity: walk *)
(* to the first vacant cell, then fill it in a second step).               *)
(***************************************************************************)
EXTENDS Integers, Sequences, FiniteSets, TLC
CONSTANTS Thread, PushImpl, MaxCells, LentImpl
\* Lent returns (src/output/lending.rs): a method returning a reference whose responses are r1 x 1, then r2 (open):
\* the values live in the shared pattern, not in the chain; a call draws its position from the pattern's atomic
\* counter and borrows the value of that position.  LentImpl = "fetch_add" (the code) | "load_store" (sensitivity).
LentIds == <<2901, 2902>>
LentAt(k) == IF k <= 1 THEN LentIds[1] ELSE LentIds[2]
VARIABLES cell,    \* [1..MaxCells -> value id or 0 (vacant)]
          cur,     \* [Thread -> cell index the pusher is looking at]
          val,     \* [Thread -> value id being pushed, 0 = idle]
          refs,    \* [Thread -> Seq(<<id, cell>>)] references obtained so far
          lost,    \* set of value ids dropped by a failed insert (never in the correct code)
          lentN,   \* match counter of the lending pattern
          lpos,    \* [Thread -> 0 idle | -1 call begun | -2 counter loaded (load_store only) | k position drawn]
          lseen,   \* [Thread -> counter value loaded (load_store only)]
          lrefs    \* [Thread -> Seq(<<position, value id read when obtained>>)] references to lent returns
lvars == <<lentN, lpos, lseen, lrefs>>
chvars == <<cell, cur, val, refs, lost, lvars>>
ChInit == /\ cell = [i \in 1..MaxCells |-> 0] /\ cur = [t \in Thread |-> 1] /\ val = [t \in Thread |-> 0]
          /\ refs = [t \in Thread |-> <<>>] /\ lost = {}
          /\ lentN = 0 /\ lpos = [t \in Thread |-> 0] /\ lseen = [t \in Thread |-> 0] /\ lrefs = [t \in Thread |-> <<>>]
PushBegin(t, id) == /\ val[t] = 0 /\ lpos[t] = 0 /\ val' = [val EXCEPT ![t] = id] /\ cur' = [cur EXCEPT ![t] = 1]
                    /\ UNCHANGED <<cell, refs, lost, lvars>>
\* one try_insert on the cell the pusher is looking at
TryInsert(t) ==
  /\ val[t] # 0 /\ PushImpl = "try_insert" /\ cur[t] <= MaxCells /\ UNCHANGED lvars
  /\ IF cell[cur[t]] = 0
     THEN /\ cell' = [cell EXCEPT ![cur[t]] = val[t]]
          /\ refs' = [refs EXCEPT ![t] = Append(@, <<val[t], cur[t]>>)]
          /\ val' = [val EXCEPT ![t] = 0] /\ UNCHANGED <<cur, lost>>
     ELSE /\ cur' = [cur EXCEPT ![t] = @ + 1] /\ UNCHANGED <<cell, refs, val, lost>>
\* the broken variant: find the first vacant cell ... then (another step) fill it
Find(t) == /\ val[t] # 0 /\ PushImpl = "find_then_fill" /\ cur[t] <= MaxCells /\ cell[cur[t]] # 0
           /\ cur' = [cur EXCEPT ![t] = @ + 1] /\ UNCHANGED <<cell, refs, val, lost, lvars>>
Fill(t) == /\ val[t] # 0 /\ PushImpl = "find_then_fill" /\ cur[t] <= MaxCells
           /\ (cell[cur[t]] = 0 \/ TRUE)
           /\ IF cell[cur[t]] = 0
              THEN /\ cell' = [cell EXCEPT ![cur[t]] = val[t]] /\ refs' = [refs EXCEPT ![t] = Append(@, <<val[t], cur[t]>>)] /\ UNCHANGED lost
              ELSE \* somebody else filled it in between: our node is dropped, we are handed theirs
                   /\ lost' = lost \cup {val[t]} /\ refs' = [refs EXCEPT ![t] = Append(@, <<val[t], cur[t]>>)] /\ UNCHANGED cell
           /\ val' = [val EXCEPT ![t] = 0] /\ UNCHANGED <<cur, lvars>>
\* a call of the lending method: begin, draw a position (one atomic step in the code), borrow
LentBegin(t) == /\ val[t] = 0 /\ lpos[t] = 0 /\ lpos' = [lpos EXCEPT ![t] = -1]
                /\ UNCHANGED <<cell, cur, val, refs, lost, lentN, lseen, lrefs>>
LentDraw(t) == /\ lpos[t] = -1 /\ UNCHANGED <<cell, cur, val, refs, lost, lrefs>>
               /\ IF LentImpl = "fetch_add"
                  THEN lentN' = lentN + 1 /\ lpos' = [lpos EXCEPT ![t] = lentN + 1] /\ UNCHANGED lseen
                  ELSE lseen' = [lseen EXCEPT ![t] = lentN] /\ lpos' = [lpos EXCEPT ![t] = -2] /\ UNCHANGED lentN
LentStore(t) == /\ lpos[t] = -2 /\ lentN' = lseen[t] + 1 /\ lpos' = [lpos EXCEPT ![t] = lseen[t] + 1]
                /\ UNCHANGED <<cell, cur, val, refs, lost, lseen, lrefs>>
LentEnd(t) == /\ lpos[t] > 0 /\ lrefs' = [lrefs EXCEPT ![t] = Append(@, <<lpos[t], LentAt(lpos[t])>>)]
              /\ lpos' = [lpos EXCEPT ![t] = 0] /\ UNCHANGED <<cell, cur, val, refs, lost, lentN, lseen>>
ChInternal(t) == TryInsert(t) \/ Find(t) \/ Fill(t) \/ LentDraw(t) \/ LentStore(t)
\* While every other thread is idle the walk of a pusher is deterministic: it ends in the first vacant cell at or
\* after the one it is looking at.  Trace validation of long chains takes that walk in one step (the single steps
\* commute with another thread's PushBegin, which touches no cell, and no observable depends on cell numbers).
FirstVacantFrom(i) == CHOOSE j \in i..MaxCells : cell[j] = 0 /\ \A h \in i..(j - 1) : cell[h] # 0
Solo(t) == val[t] # 0 /\ PushImpl = "try_insert" /\ \A u \in Thread \ {t} : val[u] = 0 /\ lpos[u] = 0
TryInsertSolo(t) ==
  /\ Solo(t) /\ \E j \in cur[t]..MaxCells : cell[j] = 0
  /\ LET j == FirstVacantFrom(cur[t]) IN
       /\ cell' = [cell EXCEPT ![j] = val[t]]
       /\ refs' = [refs EXCEPT ![t] = Append(@, <<val[t], j>>)]
       /\ cur' = [cur EXCEPT ![t] = j]
  /\ val' = [val EXCEPT ![t] = 0] /\ UNCHANGED <<lost, lvars>>
\* what a reference reads: the value in the cell it designates
Reads(t, k) == cell[refs[t][k][2]]

\* C13: every reference designates its own value; values are pairwise distinct cells; nothing is lost
RefsOwn == \A t \in Thread : \A k \in 1..Len(refs[t]) : Reads(t, k) = refs[t][k][1]
NothingLost == lost = {}
DistinctCells == \A t, u \in Thread : \A k \in 1..Len(refs[t]), j \in 1..Len(refs[u]) :
                    (t # u \/ k # j) => refs[t][k][2] # refs[u][j][2]
\* C13 / C10 for lent returns: the positions handed out are pairwise distinct and gap-free, so exactly one borrower
\* holds the first value; what a reference to a lent return reads never changes (the pattern's values never move)
LentPositions == UNION { { lrefs[t][k][1] : k \in 1..Len(lrefs[t]) } : t \in Thread }
LentExact == /\ \A t, u \in Thread : \A k \in 1..Len(lrefs[t]), j \in 1..Len(lrefs[u]) : (t # u \/ k # j) => lrefs[t][k][1] # lrefs[u][j][1]
             /\ (\A t \in Thread : lpos[t] = 0) => LentPositions = 1..lentN
LentOwn == \A t \in Thread : \A k \in 1..Len(lrefs[t]) : lrefs[t][k][2] = LentAt(lrefs[t][k][1])
=============================================================================
