"""C19: call / argument / pattern rendering in mock-induced panic messages, per error kind and method shape."""
import json, re

TY = {"u8": "u8", "ru8": "&u8", "mu8": "&mut u8", "rru8": "&&u8", "str": "&str", "string": "String", "slice": "&[u8]", "vec": "Vec<u8>",
      "nodbg": "NoDbg", "rnodbg": "&NoDbg", "gen": "X", "optstr": "Option<&str>", "dbg": "D"}


def arg_expr(k, i):
    return {"u8": "%d" % i, "ru8": "&%d" % i, "mu8": "&mut tmp%d" % i, "rru8": "&&%d" % i, "str": '"s%d"' % i, "string": 'String::from("s%d")' % i,
            "slice": "&[%d, %d]" % (i, i + 1), "vec": "vec![%d, %d]" % (i, i + 1), "nodbg": "NoDbg(%d)" % i, "rnodbg": "&NoDbg(%d)" % i,
            "gen": "NoDbg(%d)" % i, "optstr": 'Some("k%d")' % i, "dbg": "D(%d)" % i}[k]


def render(cases):
    L = ["mod prelude;", "use prelude::*;", "use unimock::*;", ""]
    exp = {}
    fns = []
    for n, c in enumerate(cases):
        kinds = c["kinds"]
        generic = "gen" in kinds
        params = "".join(", a%d: %s" % (i, TY[k]) for i, k in enumerate(kinds))
        L.append("#[unimock(api=M%d)]" % n)
        L.append("trait Tr%d { fn f%d%s(&self%s) -> u8; fn z%d(&self) -> u8; }" % (n, n, "<X: 'static>" if generic else "", params, n))
        mf = "M%d::f%d" % (n, n) + (".with_types::<NoDbg>()" if generic else "")
        pat_src = c["pat"][0]
        cid = "r%d" % n
        err = c["err"]
        L.append("fn %s() {" % cid)
        for i, k in enumerate(kinds):
            if k == "mu8":
                L.append("    let mut tmp%d: u8 = %d;" % (i + 1, i + 1))
        call = "u.f%d(%s)" % (n, ", ".join(arg_expr(k, i + 1) for i, k in enumerate(kinds)))
        zline = None
        line = None

        def put_matching(src, layout):
            """appends `matching!(src)` in one of three source layouts and returns the line of the invocation
            (the line of the `matching` token, whatever line the first sub-pattern is on)"""
            if not src or layout == 0:
                L.append("        matching!(%s)" % src)
                return len(L)
            L.append("        matching!(")
            at = len(L)
            if layout == 2:
                L.append("            // the first sub-pattern starts two lines below the invocation")
            L.append("            %s" % src)
            L.append("        )")
            return at
        layout = n % 3
        if err == "NoMockImplementation":
            L.append("    let u = Unimock::new(()).no_verify_in_drop();")
        elif err == "WrongOrder":
            L.append("    let u = Unimock::new((M%d::z%d.next_call(" % (n, n))
            L.append("        matching!()")
            zline = len(L)
            L.append("    ).returns(9u8), %s.next_call(" % mf)
            put_matching(pat_src, layout)
            L.append("    ).returns(1u8))).no_verify_in_drop();")
        elif err == "WrongOrder2":
            L.append("    let u = Unimock::new((%s.next_call(" % mf)
            L.append("        matching!(%s)" % pat_src)
            L.append("    ).returns(1u8), %s.next_call(" % mf)
            line = put_matching(pat_src, layout)
            L.append("    ).returns(2u8), M%d::z%d.next_call(matching!()).returns(9u8))).no_verify_in_drop();" % (n, n))
        else:
            head, tail = {
                "NoMatching": ("%s.each_call(" % mf, ").returns(1u8)"),
                "InputsNotMatched": ("%s.next_call(" % mf, ").returns(1u8)"),
                "MoreThanOnce": ("%s.some_call(" % mf, ").returns(1u8)"),
                "ExplicitPanic": ("%s.each_call(" % mf, ").panics(\"boo\")"),
                "CannotUnmock": ("%s.each_call(" % mf, ").applies_unmocked()"),
                "NoDefaultImpl": ("%s.each_call(" % mf, ").applies_default_impl()"),
                "NoOutput": ("%s.stub(|each| { each.call(" % mf, "); })"),
            }[err]
            L.append("    let u = Unimock::new(%s" % head)
            line = put_matching(pat_src, layout)
            L.append("    %s).no_verify_in_drop();" % tail)
        if err == "WrongOrder2":
            L.append("    let _ = observe(|| %s, |r| r.to_string());" % call)
            call = "u.z%d()" % n
        if err == "MoreThanOnce":
            L.append("    let _ = observe(|| %s, |r| r.to_string());" % call)
        L.append("    let r = observe(|| %s, |r| r.to_string());" % call)
        L.append("    let _ = observe(move || drop(u), |_| String::new());")
        L.append("    emit(\"%s\", vec![(\"r\", res_json(&r))]);" % cid)
        L.append("}")
        fns.append(cid)
        path = "Tr%d::f%d" % (n, n)
        if err == "WrongOrder":
            pattern = "Tr%d::z%d() at src/main.rs:%d" % (n, n, zline)
        elif c["namesPattern"]:
            pattern = "%s%s at src/main.rs:%d" % (path, c["pat"][1], line)
        else:
            pattern = None
        exp[cid] = {"err": err, "kinds": kinds, "call": ("Tr%d::z%d()" % (n, n)) if err == "WrongOrder2" else "%s(%s)" % (path, c["args"]), "path": path, "rendersCall": c["rendersCall"],
                    "pattern": pattern, "positions": sorted(c["positions"]), "matching": "matching!(%s)" % pat_src,
                    "signature": "fn f(&self%s) -> u8" % params}
    L.append("fn main() {")
    L.append("    std::panic::set_hook(Box::new(|_| {}));")
    for f in fns:
        L.append("    %s();" % f)
    L.append("}")
    return "\n".join(L) + "\n", exp


ANSI = re.compile(r"\x1b\[[0-9;]*m")


def compare(exp, obs_lines):
    obs = {o["case"]: o for o in obs_lines}
    divs = []
    for cid, e in exp.items():
        o = obs.get(cid)
        if o is None or "panic" not in o["r"]:
            divs.append({"case": cid, "what": "scenario for %s did not panic" % e["err"], "expected": e["err"], "observed": o and o["r"], "exp": e})
            continue
        msg = ANSI.sub("", o["r"]["panic"])
        first = msg.split("\n")[0]
        if e["rendersCall"]:
            if not first.startswith(e["call"] + ":"):
                divs.append({"case": cid, "what": "%s message does not render the call as Trait::method(args) with the Debug renderings in declaration order" % e["err"],
                             "expected": e["call"] + ": ...", "observed": first, "exp": e})
                continue
        else:
            if not first.startswith(e["path"] + " "):
                divs.append({"case": cid, "what": "%s message does not name the call as Trait::method" % e["err"], "expected": e["path"] + " ...", "observed": first, "exp": e})
                continue
        if e["pattern"] and e["pattern"] not in first:
            divs.append({"case": cid, "what": "%s message does not name the pattern by its source text and the file:line of its matching! invocation" % e["err"],
                         "expected": e["pattern"], "observed": first, "exp": e})
            continue
        if e["err"] in ("NoMatching", "InputsNotMatched") and " if " not in e["matching"]:
            got = sorted({int(x) for x in re.findall(r"mismatch for input #(\d+)", msg)})
            if got != e["positions"]:
                divs.append({"case": cid, "what": "mismatch report lists other argument positions than the rejecting ones", "expected": e["positions"], "observed": got, "exp": e})
    return divs
