-------------------------------- MODULE Chain ---------------------------------
(***************************************************************************)
(* The value chain of one instance under concurrent make_ref through a     *)
(* shared &Unimock (src/value_chain.rs push_node): an append-only list of  *)
(* once-cells; a pusher walks from the root and try_inserts its node into  *)
(* each cell until one insert succeeds; the reference it gets back         *)
(* designates the node it inserted.                                        *)
(* PushImpl = "try_insert" (the code) | "find_then_fill" (sensitivity: walk *)
(* to the first vacant cell, then fill it in a second step).               *)
(***************************************************************************)
EXTENDS Naturals, Sequences, FiniteSets, TLC
CONSTANTS Thread, PushImpl, MaxCells
VARIABLES cell,    \* [1..MaxCells -> value id or 0 (vacant)]
          cur,     \* [Thread -> cell index the pusher is looking at]
          val,     \* [Thread -> value id being pushed, 0 = idle]
          refs,    \* [Thread -> Seq(<<id, cell>>)] references obtained so far
          lost     \* set of value ids dropped by a failed insert (never in the correct code)
chvars == <<cell, cur, val, refs, lost>>
ChInit == /\ cell = [i \in 1..MaxCells |-> 0] /\ cur = [t \in Thread |-> 1] /\ val = [t \in Thread |-> 0]
          /\ refs = [t \in Thread |-> <<>>] /\ lost = {}
PushBegin(t, id) == /\ val[t] = 0 /\ val' = [val EXCEPT ![t] = id] /\ cur' = [cur EXCEPT ![t] = 1]
                    /\ UNCHANGED <<cell, refs, lost>>
\* one try_insert on the cell the pusher is looking at
TryInsert(t) ==
  /\ val[t] # 0 /\ PushImpl = "try_insert" /\ cur[t] <= MaxCells
  /\ IF cell[cur[t]] = 0
     THEN /\ cell' = [cell EXCEPT ![cur[t]] = val[t]]
          /\ refs' = [refs EXCEPT ![t] = Append(@, <<val[t], cur[t]>>)]
          /\ val' = [val EXCEPT ![t] = 0] /\ UNCHANGED <<cur, lost>>
     ELSE /\ cur' = [cur EXCEPT ![t] = @ + 1] /\ UNCHANGED <<cell, refs, val, lost>>
\* the broken variant: find the first vacant cell ... then (another step) fill it
Find(t) == /\ val[t] # 0 /\ PushImpl = "find_then_fill" /\ cur[t] <= MaxCells /\ cell[cur[t]] # 0
           /\ cur' = [cur EXCEPT ![t] = @ + 1] /\ UNCHANGED <<cell, refs, val, lost>>
Fill(t) == /\ val[t] # 0 /\ PushImpl = "find_then_fill" /\ cur[t] <= MaxCells
           /\ (cell[cur[t]] = 0 \/ TRUE)
           /\ IF cell[cur[t]] = 0
              THEN /\ cell' = [cell EXCEPT ![cur[t]] = val[t]] /\ refs' = [refs EXCEPT ![t] = Append(@, <<val[t], cur[t]>>)] /\ UNCHANGED lost
              ELSE \* somebody else filled it in between: our node is dropped, we are handed theirs
                   /\ lost' = lost \cup {val[t]} /\ refs' = [refs EXCEPT ![t] = Append(@, <<val[t], cur[t]>>)] /\ UNCHANGED cell
           /\ val' = [val EXCEPT ![t] = 0] /\ UNCHANGED cur
ChInternal(t) == TryInsert(t) \/ Find(t) \/ Fill(t)
\* While every other thread is idle the walk of a pusher is deterministic: it ends in the first vacant cell at or
\* after the one it is looking at.  Trace validation of long chains takes that walk in one step (the single steps
\* commute with another thread's PushBegin, which touches no cell, and no observable depends on cell numbers).
FirstVacantFrom(i) == CHOOSE j \in i..MaxCells : cell[j] = 0 /\ \A h \in i..(j - 1) : cell[h] # 0
Solo(t) == val[t] # 0 /\ PushImpl = "try_insert" /\ \A u \in Thread \ {t} : val[u] = 0
TryInsertSolo(t) ==
  /\ Solo(t) /\ \E j \in cur[t]..MaxCells : cell[j] = 0
  /\ LET j == FirstVacantFrom(cur[t]) IN
       /\ cell' = [cell EXCEPT ![j] = val[t]]
       /\ refs' = [refs EXCEPT ![t] = Append(@, <<val[t], j>>)]
       /\ cur' = [cur EXCEPT ![t] = j]
  /\ val' = [val EXCEPT ![t] = 0] /\ UNCHANGED lost
\* what a reference reads: the value in the cell it designates
Reads(t, k) == cell[refs[t][k][2]]

\* C13: every reference designates its own value; values are pairwise distinct cells; nothing is lost
RefsOwn == \A t \in Thread : \A k \in 1..Len(refs[t]) : Reads(t, k) = refs[t][k][1]
NothingLost == lost = {}
DistinctCells == \A t, u \in Thread : \A k \in 1..Len(refs[t]), j \in 1..Len(refs[u]) :
                    (t # u \/ k # j) => refs[t][k][2] # refs[u][j][2]
=============================================================================
