---------------------------- MODULE BuilderArith ----------------------------
(***************************************************************************)
(* The index arithmetic of builder chains (Builder.tla Run / Lookup) against *)
(* the statement of C02 (Governing), for chains of up to three segments with *)
(* ARBITRARY natural counts and an arbitrary match number k: the part of     *)
(* ChainOK that TLC only sees for counts 0..3.  Checked by Apalache (SMT,    *)
(* unbounded integers); everything is chosen in Init, so --length=0 decides  *)
(* it.  Kept free of sequences and recursion on purpose.                     *)
(*                                                                           *)
(*   n1, n2, n3  QN of the segments (0 for an unquantified last segment)      *)
(*   len         number of segments                                          *)
(*   open        the last segment is unquantified or at_least                *)
(*   k           the k-th match of the pattern (k >= 1)                       *)
(***************************************************************************)
EXTENDS Integers

VARIABLES
  \* @type: Int;
  n1,
  \* @type: Int;
  n2,
  \* @type: Int;
  n3,
  \* @type: Int;
  len,
  \* @type: Bool;
  open,
  \* @type: Int;
  k

N(i) == IF i = 1 THEN n1 ELSE IF i = 2 THEN n2 ELSE n3
\* push_responder records the running index, quantify() advances it
Start(i) == IF i = 1 THEN 0 ELSE IF i = 2 THEN n1 ELSE n1 + n2
Cum(i) == IF i = 0 THEN 0 ELSE IF i = 1 THEN n1 ELSE IF i = 2 THEN n1 + n2 ELSE n1 + n2 + n3

Init ==
  /\ n1 \in Nat /\ n2 \in Nat /\ n3 \in Nat
  /\ len \in 1..3
  /\ open \in BOOLEAN
  /\ k \in Nat /\ k >= 1
Next == UNCHANGED <<n1, n2, n3, len, open, k>>

\* the statement: the k-th match is governed by the first segment whose cumulative count reaches k,
\* by the last segment if none does and the chain is open-ended
GovDefined == k <= Cum(len) \/ open
Governing ==
  IF Cum(1) >= k THEN 1
  ELSE IF len >= 2 /\ Cum(2) >= k THEN 2
  ELSE IF len >= 3 /\ Cum(3) >= k THEN 3
  ELSE len

\* the implementation: the responder with the greatest start <= k - 1, the last one among equal starts
Cand(j) == j <= len /\ Start(j) <= k - 1
LookupLast == IF Cand(3) THEN 3 ELSE IF Cand(2) THEN 2 ELSE 1
\* every other responder the binary search may land on (same start) belongs to a segment of length zero
EqualStartsAreEmpty == \A j \in 1..3 : (Cand(j) /\ j # LookupLast /\ Start(j) = Start(LookupLast)) => N(j) = 0

KthResponseArith == GovDefined => (LookupLast = Governing /\ EqualStartsAreEmpty)

(***************************************************************************)
(* Assemble.tla for up to three ordered clauses with arbitrary exact counts  *)
(* n1..n3 (C04): the cumulative slot ranges [Start(i), Start(i) + N(i))      *)
(* partition 0 .. total-1, slot s belongs to the clause that holds position  *)
(* s of the flattened expected sequence, and no slot >= total has an owner.  *)
(* (s is the global ordered-call index claimed by a call: here k - 1.)       *)
(***************************************************************************)
Owns(i, s) == i <= len /\ Start(i) <= s /\ s < Start(i) + N(i)          \* find_call_pattern_for_call_order
FlatOwner(s) == IF s < Cum(1) THEN 1 ELSE IF s < Cum(2) THEN 2 ELSE 3      \* position s of <<clause 1 x n1, clause 2 x n2, clause 3 x n3>>
SlotsPartition ==
  LET s == k - 1 IN
  /\ (s < Cum(len) => /\ Owns(FlatOwner(s), s)
                       /\ \A i \in 1..3 : Owns(i, s) => i = FlatOwner(s))
  /\ (s >= Cum(len) => \A i \in 1..3 : ~Owns(i, s))
\* sensitivity: an inclusive upper end must be refuted
OwnsIncl(i, s) == i <= len /\ Start(i) <= s /\ s <= Start(i) + N(i)
SlotsInclusive == LET s == k - 1 IN s < Cum(len) => \A i \in 1..3 : OwnsIncl(i, s) => i = FlatOwner(s)

\* sensitivity: looking up position k instead of k - 1 must be refuted
CandOff(j) == j <= len /\ Start(j) <= k
LookupOff == IF CandOff(3) THEN 3 ELSE IF CandOff(2) THEN 2 ELSE 1
OffByOne == GovDefined => LookupOff = Governing
=============================================================================
