"""C16: unmock_with in its three forms, per-method position, receivers, sync/async, partial fall-through / applies_unmocked."""
import json, random

RECV = {"ref": "&self", "mut": "&mut self", "own": "self", "pin": "self: std::pin::Pin<&mut Self>"}
DEP = {"ref": "&impl Tr%d", "mut": "&mut impl Tr%d", "pin": "&mut impl Tr%d", "own": "impl Tr%d"}


def render(cases):
    L = ["mod prelude;", "use prelude::*;", "use unimock::*;", ""]
    exp = {}
    fns = []
    for n, c in enumerate(cases):
        sh, ex = c["shape"], c["exp"]
        first_line = len(L) + 1
        recv, k, t, entries = sh["recv"], sh["n"], sh["target"], sh["entries"]
        asy = "async " if sh["async"] else ""
        aw = ".await" if sh["async"] else ""
        lst = (["_"] if sh["skipped"] else [])
        for i, e in enumerate(entries, 1):
            lst.append({"none": "_", "path": "real%d_%d" % (n, i), "expl": "realx%d_%d(b, a)" % (n, i), "expls": "realy%d_%d(self, b, a)" % (n, i)}[e])
        lst.append("_")
        L.append("#[unimock(api=M%d, unmock_with=[%s])]" % (n, ", ".join(lst)))
        L.append("trait Tr%d {" % n)
        if sh["skipped"]:
            L.append("    fn version() -> u32 where Self: Sized { 1 }")
        for i in range(1, k + 1):
            L.append("    %sfn m%d_%d(%s, a: u8, b: u8) -> u32;" % (asy, n, i, RECV[recv]))
        L.append("    fn helper%d(&self, a: u8, b: u8) -> u32;" % n)
        L.append("}")
        for i, e in enumerate(entries, 1):
            if e == "path":
                nested = ""
                if sh["nested"] and i == t:
                    nested = "let v = dep.helper%d(3, 4); rec_a(vec![\"nested\".to_string(), v.to_string()]); " % n
                L.append("%sfn real%d_%d(dep: %s, a: u8, b: u8) -> u32 { rec_a(vec![\"real_%d\".to_string(), sh(&a), sh(&b)]); %s%d }" %
                         (asy, n, i, DEP[recv] % n, i, nested, 1000 + i))
            elif e == "expls":
                L.append("%sfn realy%d_%d(_dep: %s, b: u8, a: u8) -> u32 { rec_a(vec![\"realy_%d\".to_string(), sh(&b), sh(&a)]); %d }" % (asy, n, i, DEP[recv] % n, i, 3000 + i))
            elif e == "expl":
                L.append("%sfn realx%d_%d(b: u8, a: u8) -> u32 { rec_a(vec![\"realx_%d\".to_string(), sh(&b), sh(&a)]); %d }" % (asy, n, i, i, 2000 + i))
        helper_clause = "M%d::helper%d.each_call(matching!(3, _)).returns(77u32).once()" % (n, n)
        if sh["mode"] == "partial":
            build = "Unimock::new_partial(%s)" % (helper_clause if sh["nested"] else "()")
        else:
            cl = "M%d::m%d_%d.each_call(matching!(_, _)).applies_unmocked()" % (n, n, t)
            build = "Unimock::new(%s)" % (("(%s, %s)" % (cl, helper_clause)) if sh["nested"] else cl)
        cid = "u%d" % n
        mutu = "mut " if recv in ("mut", "pin") else ""
        call = {"ref": "u.m%d_%d(5, 9)", "mut": "u.m%d_%d(5, 9)", "own": "u.m%d_%d(5, 9)", "pin": "std::pin::Pin::new(&mut u).m%d_%d(5, 9)"}[recv] % (n, t)
        if sh["async"]:
            call = "block_on(%s)" % call
        L.append("fn %s() {" % cid)
        L.append("    let _ = take_a();")
        L.append("    let %su = %s;" % (mutu, build))
        L.append("    let r = observe(|| %s, |r| r.to_string());" % call)
        L.append("    let a = take_a();")
        if recv == "own":
            L.append("    let fin: Result<String, String> = Ok(\"consumed\".to_string());")
        else:
            L.append("    let fin = observe(move || u.verify(), |_| \"silent\".to_string());")
        L.append("    emit(\"%s\", vec![(\"r\", res_json(&r)), (\"a\", jlog(&a)), (\"fin\", res_json(&fin))]);" % cid)
        L.append("}")
        fns.append(cid)
        want_a = []
        if ex["k"] == "ret":
            want_a = [[ex["who"]] + ex["args"]] + ([["nested", "77"]] if sh["nested"] else [])
        exp[cid] = {"shape": sh, "attr": "unmock_with=[%s]" % ", ".join(lst), "sig": "%sfn m%d(%s, a: u8, b: u8) -> u32" % (asy, t, RECV[recv]),
                    "lines": [first_line, len(L)], "src_case": c,
                    "k": ex["k"], "ret": str(ex["ret"]), "a": want_a, "path": "Tr%d::m%d_%d" % (n, n, t)}
    L.append("fn main() {")
    L.append("    std::panic::set_hook(Box::new(|_| {}));")
    for f in fns:
        L.append("    %s();" % f)
    L.append("}")
    return "\n".join(L) + "\n", exp


def compare(exp, obs_lines):
    obs = {o["case"]: o for o in obs_lines}
    divs = []
    for cid, e in exp.items():
        o = obs.get(cid)
        if o is None:
            divs.append({"case": cid, "what": "case produced no observation", "expected": None, "observed": None, "exp": e})
            continue
        desc = "%s with %s, %s mock" % (e["sig"], e["attr"], e["shape"]["mode"])
        if e["k"] == "ret":
            if o["r"] != {"ok": e["ret"]} or o["a"] != e["a"]:
                divs.append({"case": cid, "what": "the registered real function was not invoked exactly once with the mock and the caller's arguments, its result returned unchanged [%s]" % desc,
                             "expected": {"r": {"ok": e["ret"]}, "real_function_saw": e["a"]}, "observed": {"r": o["r"], "real_function_saw": o["a"]}, "exp": e})
                continue
            if e["shape"]["recv"] != "own" and o["fin"] != {"ok": "silent"} and e["shape"]["nested"]:
                divs.append({"case": cid, "what": "calls the real function made back into the mocked trait were not evaluated by the same mock [%s]" % desc,
                             "expected": "verify() silent", "observed": o["fin"], "exp": e})
        else:
            p = o["r"].get("panic", "")
            if "cannot be unmocked" not in p or not p.startswith(e["path"] + " "):
                divs.append({"case": cid, "what": "a call that resolves to a missing real implementation must panic naming the method [%s]" % desc,
                             "expected": e["path"] + " cannot be unmocked ...", "observed": o["r"], "exp": e})
            elif o["a"]:
                divs.append({"case": cid, "what": "a real function ran although none is registered for the method [%s]" % desc, "expected": [], "observed": o["a"], "exp": e})
    return divs
