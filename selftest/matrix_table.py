#!/usr/bin/env python3
"""matrix_table.py: renders seeded/*/meta.json + selftest/results.json as the markdown table of
DESIGN.md section 12.4 and splices it between the markers <!-- MATRIX:BEGIN --> / <!-- MATRIX:END -->."""
import json, os, re, sys
VERIF = os.path.dirname(os.path.dirname(os.path.abspath(__file__)))

def main():
    res = json.load(open(os.path.join(VERIF, "selftest", "results.json")))
    rows = ["| change | round | what it does (author's summary, truncated) | detected by | run and not detected by |", "|---|---|---|---|---|"]
    n = det = own = 0
    for mid in sorted(os.listdir(os.path.join(VERIF, "seeded"))):
        meta = json.load(open(os.path.join(VERIF, "seeded", mid, "meta.json")))
        r = res.get(mid, {})
        hit = sorted(k.replace(":quick", "").replace(":thorough", " (thorough)") for k, v in r.items() if v["exit"] == 1)
        miss = sorted(k.replace(":quick", "").replace(":thorough", " (thorough)") for k, v in r.items() if v["exit"] == 0)
        err = sorted(k for k, v in r.items() if v["exit"] not in (0, 1))
        n += 1; det += bool(hit); own += meta["property"] in hit
        s = re.sub(r"\s+", " ", meta["summary"])[:150].replace("|", "\\|")
        rows.append("| %s | %s | %s... | %s | %s |" % (mid, meta.get("round", 1), s, ", ".join(hit) or "**none**",
                                                     ", ".join(miss + ["%s (tool error)" % e for e in err])))
    rows.append("")
    rows.append("%d changes, %d detected by at least one quick check, %d by the quick check of their own property." % (n, det, own))
    p = os.path.join(VERIF, "DESIGN.md")
    s = open(p).read()
    a, b = "<!-- MATRIX:BEGIN -->", "<!-- MATRIX:END -->"
    if a in s:
        s = s[:s.index(a) + len(a)] + "\n" + "\n".join(rows) + "\n" + s[s.index(b):]
        open(p, "w").write(s)
    print("\n".join(rows[-1:]))

if __name__ == "__main__":
    main()
