------------------------------- MODULE MC_Chain --------------------------------
EXTENDS Chain
CONSTANT PushesPer     \* pushes per thread
VARIABLE done          \* [Thread -> pushes completed or started]
mcv == <<chvars, done>>
MInit == ChInit /\ done = [t \in Thread |-> 0]
MBegin(t) == /\ done[t] < PushesPer /\ PushBegin(t, t * 10 + done[t] + 1) /\ done' = [done EXCEPT ![t] = @ + 1]
MNext == \E t \in Thread : MBegin(t) \/ (ChInternal(t) /\ UNCHANGED done)
MSpec == MInit /\ [][MNext]_mcv
Quiet == \A t \in Thread : val[t] = 0 /\ done[t] = PushesPer
\* at quiescence the chain holds exactly the pushed ids, one cell each
ChainLinear == Quiet => { cell[i] : i \in 1..MaxCells } \ {0} = { t * 10 + k : t \in Thread, k \in 1..PushesPer }
T2 == {1, 2}
T3 == {1, 2, 3}
=============================================================================
