-------------------------------- MODULE Shapes --------------------------------
(***************************************************************************)
(* Return-type shapes and composite return values (src/output/*,           *)
(* unimock_macros/src/unimock/output.rs): C17, and the composite part of   *)
(* C12.                                                                    *)
(*                                                                         *)
(* type  = [c |-> "leaf", l |-> L] | [c |-> "opt", x] | [c |-> "res", ok, err]            *)
(*       | [c |-> "vec", x] | [c |-> "poll", x] | [c |-> "tup", xs : Seq(type)]           *)
(*   leaves: "O" owned Clone value, "T" owned non-Clone value, "B" &T borrowed from self, *)
(*           "Bs" &str borrowed from self, "Bl" &[T] (a slice) borrowed from self,        *)
(*           "S" &'static str                                                             *)
(* value = the same tree with a variant chosen at every container.                        *)
(*                                                                                        *)
(* Two descriptions of what a caller observes:                                            *)
(*  - implementation-shaped: Store (into_return / into_return_once per container) and     *)
(*    Output (GetOutput::output per container, `?` on every element);                     *)
(*  - statement-shaped (C17/C12): the configured value, shape for shape; borrowed leaves  *)
(*    on every call; a response configured through the single-use path is refused as a    *)
(*    whole once an owned leaf it contains has been moved out.                            *)
(***************************************************************************)
EXTENDS Naturals, Sequences, FiniteSets, TLC

Leaf(l) == [c |-> "leaf", l |-> l]
Opt(x) == [c |-> "opt", x |-> x]
Res(a, b) == [c |-> "res", ok |-> a, err |-> b]
Vec(x) == [c |-> "vec", x |-> x]
Poll(x) == [c |-> "poll", x |-> x]
Tup(xs) == [c |-> "tup", xs |-> xs]

Owned(l) == l \in {"O", "T"}
RECURSIVE HasBorrow(_), HasTok(_), HasStatic(_)
HasBorrow(ty) == CASE ty.c = "leaf" -> ty.l \in {"B", "Bs", "Bl"}
                   [] ty.c = "res"  -> HasBorrow(ty.ok) \/ HasBorrow(ty.err)
                   [] ty.c = "tup"  -> \E i \in 1..Len(ty.xs) : HasBorrow(ty.xs[i])
                   [] OTHER         -> HasBorrow(ty.x)
HasTok(ty) == CASE ty.c = "leaf" -> ty.l = "T"
                [] ty.c = "res"  -> HasTok(ty.ok) \/ HasTok(ty.err)
                [] ty.c = "tup"  -> \E i \in 1..Len(ty.xs) : HasTok(ty.xs[i])
                [] OTHER         -> HasTok(ty.x)
HasStatic(ty) == CASE ty.c = "leaf" -> ty.l = "S"
                [] ty.c = "res"  -> HasStatic(ty.ok) \/ HasStatic(ty.err)
                [] ty.c = "tup"  -> \E i \in 1..Len(ty.xs) : HasStatic(ty.xs[i])
                [] OTHER         -> HasStatic(ty.x)

\* output kind chosen from the return type's syntax (determine_output_structure):
\*   a top-level reference is Lending / StaticRef; a type with no borrow from self is Owning as a
\*   whole; otherwise the structure is taken apart (Shallow / Deep)
KindOf(ty) == IF ty.c = "leaf" /\ ty.l \in {"B", "Bs", "Bl"} THEN "lending"
              ELSE IF ty.c = "leaf" /\ ty.l = "S" THEN "staticref"
              ELSE IF ~HasBorrow(ty) THEN "owning"
              ELSE "mixed"

SeqsUpTo(S, n) == UNION { [1..k -> S] : k \in 0..n }
RECURSIVE Values(_, _)
Values(ty, maxLen) ==
  CASE ty.c = "leaf" -> { [c |-> "leaf", l |-> ty.l] }
    [] ty.c = "opt"  -> { [c |-> "none"] } \cup { [c |-> "some", x |-> v] : v \in Values(ty.x, maxLen) }
    [] ty.c = "res"  -> { [c |-> "ok", x |-> v] : v \in Values(ty.ok, maxLen) } \cup { [c |-> "err", x |-> v] : v \in Values(ty.err, maxLen) }
    [] ty.c = "poll" -> { [c |-> "pending"] } \cup { [c |-> "ready", x |-> v] : v \in Values(ty.x, maxLen) }
    [] ty.c = "vec"  -> { [c |-> "vec", xs |-> s] : s \in SeqsUpTo(Values(ty.x, maxLen), maxLen) }
    [] OTHER         -> { [c |-> "tup", xs |-> s] : s \in { f \in [1..Len(ty.xs) -> UNION { Values(ty.xs[i], maxLen) : i \in 1..Len(ty.xs) }] :
                                                             \A i \in 1..Len(ty.xs) : f[i] \in Values(ty.xs[i], maxLen) } }

\* owned leaves present in a value (a None / Pending / empty Vec holds none)
RECURSIVE OwnedLeaves(_)
OwnedLeaves(v) ==
  CASE v.c = "leaf" -> IF Owned(v.l) THEN 1 ELSE 0
    [] v.c \in {"none", "pending"} -> 0
    [] v.c \in {"vec", "tup"} -> LET RECURSIVE S(_) S(i) == IF i = 0 THEN 0 ELSE OwnedLeaves(v.xs[i]) + S(i - 1) IN S(Len(v.xs))
    [] OTHER -> OwnedLeaves(v.x)

(***************************************************************************)
(* Implementation-shaped: stored tree and per-container output()           *)
(*  path "once" = IntoReturnOnce (single-use), "multi" = IntoReturn        *)
(*  stored leaf: "lent" (borrowed or static: output always Some),          *)
(*               "clone" (owned, cloned per request),                      *)
(*               "slot" (owned, take() under a mutex: Some once)           *)
(*  an Owning type is ONE leaf holding the whole value.                    *)
(***************************************************************************)
RECURSIVE Store(_, _)
Store(path, v) ==
  CASE v.c = "leaf" -> [c |-> "leaf", l |-> v.l,
                        st |-> IF ~Owned(v.l) THEN "lent" ELSE IF path = "once" THEN "slot" ELSE "clone"]
    [] v.c \in {"none", "pending"} -> v
    [] v.c \in {"vec", "tup"} -> [c |-> v.c, xs |-> [i \in 1..Len(v.xs) |-> Store(path, v.xs[i])]]
    [] OTHER -> [c |-> v.c, x |-> Store(path, v.x)]
\* output of a stored tree on request number n (1, 2, ...): "none" if any element's output is None
RECURSIVE Avail(_, _)
Avail(s, n) ==
  CASE s.c = "leaf" -> s.st # "slot" \/ n = 1
    [] s.c \in {"none", "pending"} -> TRUE
    [] s.c \in {"vec", "tup"} -> \A i \in 1..Len(s.xs) : Avail(s.xs[i], n)
    [] OTHER -> Avail(s.x, n)
ImplOutcome(ty, path, v, n) ==
  IF KindOf(ty) = "owning"
  THEN (IF path = "once" THEN (IF n = 1 THEN "value" ELSE "refused") ELSE "value")
  ELSE IF Avail(Store(path, v), n) THEN "value" ELSE "refused"

(***************************************************************************)
(* Statement-shaped (C17 + C12)                                            *)
(***************************************************************************)
\* is a response configured through `path` single-use?  A whole owned value is; a composite with
\* borrowed parts is single-use exactly when it holds an owned leaf
SingleUseResponse(ty, path, v) ==
  path = "once" /\ (IF KindOf(ty) = "owning" THEN TRUE
                    ELSE IF KindOf(ty) \in {"lending", "staticref"} THEN FALSE
                    ELSE OwnedLeaves(v) > 0)
StmtOutcome(ty, path, v, n) == IF SingleUseResponse(ty, path, v) /\ n > 1 THEN "refused" ELSE "value"
\* clone generation of the owned leaves a caller receives: the stored value itself (0) on the
\* single-use path, a clone (1) on the repeat-use path
LeafGen(path) == IF path = "once" THEN 0 ELSE 1

CaseOK(ty, path, v) == \A n \in 1..3 : ImplOutcome(ty, path, v, n) = StmtOutcome(ty, path, v, n)
\* which builder paths type-check: the repeat-use path needs every owned leaf type to be Clone
PathOK(ty, path) == path = "once" \/ ~HasTok(ty)

(***************************************************************************)
(* C19: how a call, its arguments and a pattern appear in mock-induced     *)
(* panic messages (src/debug.rs, src/error.rs, generated debug_inputs).    *)
(*  argument kinds and the rendering of the value with index v:            *)
(***************************************************************************)
ArgKinds == {"u8", "ru8", "mu8", "rru8", "str", "string", "slice", "vec", "nodbg", "rnodbg", "gen", "optstr", "dbg"}
RenderArg(k, v) ==
  CASE k \in {"u8", "ru8", "mu8", "rru8"} -> ToString(v)                       \* every reference layer is removed
    [] k \in {"str", "string"}            -> "\"s" \o ToString(v) \o "\""
    [] k \in {"slice", "vec"}             -> "[" \o ToString(v) \o ", " \o ToString(v + 1) \o "]"
    [] k \in {"nodbg", "rnodbg", "gen"}   -> "?"                                 \* no Debug visible to the macro
    [] k = "optstr"                        -> "Some(\"k" \o ToString(v) \o "\")"
    [] OTHER                               -> "D(" \o ToString(v) \o ")"
RECURSIVE JoinArgs(_, _)
JoinArgs(kinds, i) == IF i > Len(kinds) THEN ""
                      ELSE RenderArg(kinds[i], i) \o (IF i < Len(kinds) THEN ", " ELSE "") \o JoinArgs(kinds, i + 1)
\* Trait::method(d1, ..., dn): Debug renderings of the actual arguments in declaration order
CallText(path, kinds) == path \o "(" \o JoinArgs(kinds, 1) \o ")"

\* pattern source text of the scenario's matching! invocation: a literal where the argument kind admits
\* one, `_` elsewhere; `reject` makes the first literal-capable position (or a false guard) reject
LitCapable(k) == k \in {"u8", "str", "string"}
PatElem(k, i, reject) == IF ~LitCapable(k) THEN "_"
                         ELSE IF k = "u8" THEN ToString(IF reject THEN i + 100 ELSE i)
                         ELSE "\"s" \o ToString(IF reject THEN i + 100 ELSE i) \o "\""
RECURSIVE JoinPat(_, _, _)
JoinPat(kinds, i, rejectAt) == IF i > Len(kinds) THEN ""
                      ELSE PatElem(kinds[i], i, i = rejectAt) \o (IF i < Len(kinds) THEN ", " ELSE "") \o JoinPat(kinds, i + 1, rejectAt)
FirstLit(kinds) == LET S == { i \in 1..Len(kinds) : LitCapable(kinds[i]) } IN IF S = {} THEN 0 ELSE CHOOSE i \in S : \A j \in S : i <= j
\* <<text inside matching!(...), text the message shows after Trait::method>>
PatSrc(kinds, reject) ==
  LET r == IF reject THEN FirstLit(kinds) ELSE 0 IN
  IF reject /\ r = 0
  THEN << "(" \o JoinPat(kinds, 1, 0) \o ") if false", "(" \o JoinPat(kinds, 1, 0) \o ") if {guard}" >>
  ELSE << JoinPat(kinds, 1, r), "(" \o JoinPat(kinds, 1, r) \o ")" >>

\* "WrongOrder2": the method's two consecutive ordered patterns, the first consumed, then ANOTHER ordered method is
\* called: the message renders that call and names the method's second pattern as the expected one
ErrKinds == {"NoMockImplementation", "NoMatching", "NoOutput", "WrongOrder", "WrongOrder2", "InputsNotMatched", "MoreThanOnce", "ExplicitPanic", "CannotUnmock", "NoDefaultImpl"}
Rejecting(e) == e \in {"NoMatching", "InputsNotMatched"}
\* does the message render the call with its arguments / name a pattern?
RendersCall(e) == e \notin {"CannotUnmock", "NoDefaultImpl"}
NamesPattern(e) == e \in {"NoOutput", "WrongOrder", "WrongOrder2", "InputsNotMatched", "MoreThanOnce", "ExplicitPanic"}
\* positions listed in the mismatch report of a rejecting scenario (guard-free patterns only)
RejectedPositions(kinds, e) == IF Rejecting(e) /\ FirstLit(kinds) # 0 THEN {FirstLit(kinds) - 1} ELSE {}

(***************************************************************************)
(* C05: what the generated impl forwards (unimock_macros/src/unimock/      *)
(* mod.rs def_method_impl, method.rs InputsDestructuring).                 *)
(* A method shape: receiver, parameter kinds, return kind, async form,     *)
(* api form, generics.  The argument at position i carries the value with  *)
(* index i, so all values are pairwise distinct.                           *)
(*  AnswerView: what the answer function receives (the caller's argument)  *)
(*  MatcherView: what the input matcher sees: the same argument (by ref)    *)
(*  After: the caller's variable after the call, for &mut parameters the   *)
(*         answer writes through                                           *)
(***************************************************************************)
Recvs == {"ref", "mut", "own", "rc", "arc", "pin"}
\* "mlvec": `&'a mut Vec<u8>` with a named lifetime on the reference (still a plain mutable borrow: the matcher sees it)
\* "tstr": `&'t str` where 't is a lifetime parameter of the TRAIT (trait Tr<'t> { .. })
ParamKinds == {"u8", "string", "ru8", "str", "tstr", "mu8", "mvec", "mlvec", "slice", "vec", "gen", "optstr", "pair", "rru8", "into"}
AnswerView(k, i) ==
  CASE k = "u8"     -> ToString(i)
    [] k = "string" -> "s" \o ToString(i)
    [] k = "ru8"    -> "&" \o ToString(i)
    [] k = "rru8"   -> "&&" \o ToString(i)
    [] k \in {"str", "tstr"} -> "&s" \o ToString(i)
    [] k = "mu8"    -> "&mut " \o ToString(i)
    [] k \in {"mvec", "mlvec"} -> "&mut [" \o ToString(i) \o "]"
    [] k = "slice"  -> "&[" \o ToString(i) \o "," \o ToString(i + 1) \o "]"
    [] k = "vec"    -> "[" \o ToString(i) \o "," \o ToString(i + 1) \o "]"
    [] k = "gen"    -> ToString(i)
    [] k = "into"   -> "s" \o ToString(i)
    [] k = "optstr" -> "Some(&k" \o ToString(i) \o ")"
    [] OTHER        -> "(" \o ToString(i) \o "," \o ToString(i + 1) \o ")"
\* the matcher receives a reference to the argument tuple; the rendering used by the generated
\* programs (Show::show through method auto-deref) shows the referent, i.e. the argument itself
MatcherView(k, i) == AnswerView(k, i)
Writes(k) == k \in {"mu8", "mvec", "mlvec"}
After(k, i) == IF k = "mu8" THEN ToString(i + 100) ELSE "[" \o ToString(i) \o "," \o ToString(i + 100) \o "]"
\* "ref" &u32 borrowed from self (elided) | "sref" the same with the lifetime spelled out: fn f<'s>(&'s self, ..) -> &'s u32
\* "optref" Option<&u32> | "static" &'static str | "assoc" Self::Out (type Out = u32 given in the attribute)
\* "pref" the first parameter, a `&'a str`, handed back: fn f<'a>(.., a1: &'a str, ..) -> &'a str
\* "dynref" &dyn Display borrowed from self | "boxdyn" Box<dyn Display> (trait objects: the macro adds the 'static bound)
RetKinds == {"u32", "string", "opt", "ref", "sref", "optref", "static", "assoc", "pref", "dynref", "boxdyn"}
SelfBorrowing == {"ref", "sref", "optref", "dynref"}
RetView(r) == CASE r = "u32" -> "4242" [] r = "string" -> "ret" [] r = "opt" -> "Some(7)" [] r = "optref" -> "Some(&77)"
                [] r = "static" -> "&lit" [] r = "assoc" -> "4242" [] r = "pref" -> "&s1" [] r = "boxdyn" -> "box 78" [] OTHER -> "&77"
AsyncKinds == {"none", "asyncfn", "implfuture"}
ApiForms == {"module", "flattened", "hidden"}
\* what the attribute and Rust accept (measured, DESIGN Appendix G)
ValidShape(sh) ==
  /\ (sh.ret \in SelfBorrowing => sh.recv \in {"ref", "mut", "pin"} /\ sh.async = "none")
  /\ (sh.ret = "sref" => sh.recv = "ref")
  /\ (sh.ret \in {"static", "assoc", "pref", "boxdyn"} => sh.async = "none")
  /\ (sh.ret \in {"assoc", "pref", "boxdyn"} => sh.api # "hidden")
  \* (measured: the generated impl of a parameter-borrowing return does not pass borrowck when another parameter is a
  \*  reference of any kind or the receiver is `&mut self` / `Pin<&mut Self>`: such traits are rejected at compile time)
  /\ (sh.ret = "pref" => Len(sh.params) >= 1 /\ sh.params[1] = "str" /\ sh.recv \notin {"mut", "pin"}
                          /\ \A i \in 2..Len(sh.params) : sh.params[i] \in {"u8", "string", "vec", "pair", "gen"})
  /\ (sh.async = "implfuture" => sh.recv \notin {"mut", "pin"})
  /\ (sh.api = "hidden" => sh.recv = "ref" /\ sh.ret \notin SelfBorrowing /\ \A i \in 1..Len(sh.params) : sh.params[i] \notin {"gen", "into"})
  /\ (sh.async # "none" => \A i \in 1..Len(sh.params) : sh.params[i] \notin {"into"})
  /\ Cardinality({ i \in 1..Len(sh.params) : sh.params[i] \in {"gen", "into"} }) <= 1
  /\ ((\E i \in 1..Len(sh.params) : sh.params[i] \in {"mlvec", "tstr"}) => sh.async = "none" /\ sh.api # "hidden")
  \* (measured: a trait with a lifetime parameter does not expand to valid Rust with the flattened api form `api=[F]`,
  \*  nor when one of its methods has a type parameter)
  /\ ((\E i \in 1..Len(sh.params) : sh.params[i] = "tstr") => sh.ret \notin {"assoc", "pref"} /\ sh.api = "module"
                                                                /\ \A i \in 1..Len(sh.params) : sh.params[i] \notin {"gen", "into"})
Forward(sh) ==
  [matcher |-> [i \in 1..Len(sh.params) |-> MatcherView(sh.params[i], i)],
   answer  |-> [i \in 1..Len(sh.params) |-> AnswerView(sh.params[i], i)],
   after   |-> [i \in 1..Len(sh.params) |-> IF Writes(sh.params[i]) THEN After(sh.params[i], i) ELSE "-"],
   ret     |-> RetView(sh.ret)]

(***************************************************************************)
(* C07 over the receiver kinds of the generated impl (def_method_impl has  *)
(* one code path for &self / by-value / Rc / Arc receivers and another for *)
(* &mut self / Pin<&mut Self>).  One method m(recv, a: u8) -> u32 with or  *)
(* without a default body (7000) and with or without a registered real     *)
(* function (9000); a strict or partial mock whose only clause, if any, is *)
(* `each_call(matching!(1)).returns(5000)`; one call with a = 1 or a = 2.  *)
(* The statement's decision table:                                         *)
(***************************************************************************)
FallbackShapes == [recv : Recvs, dflt : BOOLEAN, real : BOOLEAN, partial : BOOLEAN, mention : {"none", "unmatched", "matched"}]
FallbackExpected(sh) ==
  CASE sh.mention = "matched" -> [k |-> "ret", v |-> 5000, class |-> ""]
    [] sh.mention = "none" ->
         IF sh.dflt THEN [k |-> "ret", v |-> 7000, class |-> ""]
         ELSE IF sh.partial /\ sh.real THEN [k |-> "ret", v |-> 9000, class |-> ""]
         ELSE IF sh.partial THEN [k |-> "panic", v |-> 0, class |-> "CannotUnmock"]
         ELSE [k |-> "panic", v |-> 0, class |-> "NoMockImplementation"]
    [] OTHER -> \* mentioned, but every pattern rejects the arguments: the default body plays no part
         IF ~sh.partial THEN [k |-> "panic", v |-> 0, class |-> "NoMatchingCallPatterns"]
         ELSE IF sh.real THEN [k |-> "ret", v |-> 9000, class |-> ""]
         ELSE [k |-> "panic", v |-> 0, class |-> "CannotUnmock"]

(***************************************************************************)
(* C16: unmock_with.  A trait with n methods of one signature              *)
(* (recv, a: u8, b: u8) -> u32 (same types, so that a permuted or ignored parameter list still compiles), an optional provided associated function *)
(* without receiver declared first (it is not mockable but still occupies  *)
(* a slot of the list), and per method an entry of the list:               *)
(*    "none"  `_`            no real function                              *)
(*    "path"  `real_i`       called as real_i(mock, a, b)                  *)
(*    "expl"  `realx_i(b, a)` called with the listed expressions           *)
(* The call under test targets method `target`, in a partial mock (fall    *)
(* through) or in a strict mock with an applies_unmocked() clause.         *)
(***************************************************************************)
\*    "expls" `realy_i(self, b, a)` explicit list that names the receiver first and permutes the rest
EntryKinds == {"none", "path", "expl", "expls"}
UnmockExpected(sh) ==
  LET e == sh.entries[sh.target] IN
  CASE e = "none" -> [k |-> "panic", class |-> "CannotUnmock", who |-> "", args |-> <<>>, ret |-> 0]
    [] e = "path" -> [k |-> "ret", class |-> "", who |-> "real_" \o ToString(sh.target), args |-> <<"5", "9">>, ret |-> 1000 + sh.target]
    [] e = "expls" -> [k |-> "ret", class |-> "", who |-> "realy_" \o ToString(sh.target), args |-> <<"9", "5">>, ret |-> 3000 + sh.target]
    [] OTHER      -> [k |-> "ret", class |-> "", who |-> "realx_" \o ToString(sh.target), args |-> <<"9", "5">>, ret |-> 2000 + sh.target]
UnmockShapes(NM, Rs) ==
  { sh \in [recv : Rs, n : NM, target : 1..3, entries : UNION { [1..k -> EntryKinds] : k \in NM }, skipped : BOOLEAN,
            async : BOOLEAN, mode : {"partial", "clause"}, nested : BOOLEAN] :
      /\ Len(sh.entries) = sh.n /\ sh.target <= sh.n
      /\ (sh.nested => sh.entries[sh.target] = "path")
      /\ ((\E i \in 1..Len(sh.entries) : sh.entries[i] = "expls") => sh.recv \in {"ref", "own"})
      /\ (sh.async => sh.recv \in {"ref", "own"}) }

(***************************************************************************)
(* C15: default-method delegation per receiver kind.                       *)
(* trait: fn req(&self, x: u8) -> u32;                                     *)
(*        fn dflt(RECV, a: u8, b: &str) -> u32 { self.req(a) + self.req(a+1) + ... + 1000 }  *)
(* The required method is configured to return 10 * x; `direct` direct     *)
(* calls req(1) precede the delegated call dflt(5, "s"); the required      *)
(* patterns are either one unordered pattern with an exact total count or  *)
(* one ordered pattern per expected call, so the final verification is     *)
(* silent exactly when every call was evaluated by the same mock state.    *)
(***************************************************************************)
RECURSIVE SumReq(_, _)
SumReq(a, n) == IF n = 0 THEN 0 ELSE 10 * (a + n - 1) + SumReq(a, n - 1)
\* consume: (Rc / Arc receivers) the body's last required call is to a required method that itself takes
\* `self: Rc<Self>` / `Arc<Self>`, handing the pointer on
\* generic: the provided method has a type parameter of its own ("method") or belongs to a generic trait ("trait")
\* weak:    (sole Rc / Arc owner) a Weak observer of the pointer is alive during the call
DelegateShapes == { sh \in [recv : Recvs, nreq : 0..3, explicit : BOOLEAN, direct : 0..1, ordered : BOOLEAN, shared : BOOLEAN, consume : BOOLEAN,
                            generic : {"none", "method", "trait"}, weak : BOOLEAN] :
                      /\ (sh.shared => sh.recv \in {"rc", "arc"})
                      /\ (sh.consume => sh.recv \in {"rc", "arc"} /\ sh.nreq >= 1)
                      /\ (sh.weak => sh.recv \in {"rc", "arc"} /\ ~sh.shared /\ sh.direct = 0 /\ ~sh.ordered /\ sh.generic = "none")
                      /\ (sh.generic # "none" => sh.direct = 0 /\ ~sh.consume /\ ~sh.shared /\ sh.nreq \in {0, 2}) }
DelegateExpected(sh) ==
  [ret |-> 1000 + SumReq(5, sh.nreq),
   body |-> <<"5", "&s">>,
   reqcalls |-> [i \in 1..(sh.direct + sh.nreq) |-> IF i <= sh.direct THEN 1 ELSE 5 + (i - sh.direct - 1)],
   verdict |-> "silent"]

(***************************************************************************)
(* C20: traits mirrored under unimock::mock (core / std part): which       *)
(* methods are required (served by their own mock entry point) and which   *)
(* are provided (an un-mocked call runs the upstream default body over the *)
(* mocked required methods).  From the upstream trait definitions.         *)
(***************************************************************************)
Mirrors ==
  { <<"Display", "fmt", "req">>, <<"Debug", "fmt", "req">>,
    <<"Hasher", "finish", "req">>, <<"Hasher", "write", "req">> }
  \cup { <<"Hasher", m, "prov">> : m \in {"write_u8", "write_u16", "write_u32", "write_u64", "write_u128", "write_usize",
                                             "write_i8", "write_i16", "write_i32", "write_i64", "write_i128", "write_isize"} }
  \cup { <<"Error", "source", "prov">> }
  \cup { <<"BufRead", "fill_buf", "req">>, <<"BufRead", "consume", "req">>, <<"BufRead", "read_until", "prov">>, <<"BufRead", "read_line", "prov">> }
  \cup { <<"Read", "read", "req">>, <<"Read", "read_vectored", "prov">>, <<"Read", "read_to_end", "prov">>, <<"Read", "read_to_string", "prov">>, <<"Read", "read_exact", "prov">> }
  \cup { <<"Seek", "seek", "req">>, <<"Seek", "rewind", "prov">>, <<"Seek", "stream_position", "prov">> }
  \cup { <<"Write", "write", "req">>, <<"Write", "flush", "req">>, <<"Write", "write_vectored", "prov">>, <<"Write", "write_all", "prov">> }
  \cup { <<"DelayNs", "delay_ns", "req">>, <<"DelayNs", "delay_us", "prov">>, <<"DelayNs", "delay_ms", "prov">> }
  \cup { <<"tokio::AsyncBufRead", "poll_fill_buf", "req">>, <<"tokio::AsyncBufRead", "consume", "req">>, <<"tokio::AsyncRead", "poll_read", "req">>,
         <<"tokio::AsyncSeek", "start_seek", "req">>, <<"tokio::AsyncSeek", "poll_complete", "req">>,
         <<"tokio::AsyncWrite", "poll_write", "req">>, <<"tokio::AsyncWrite", "poll_flush", "req">>, <<"tokio::AsyncWrite", "poll_shutdown", "req">>,
         <<"tokio::AsyncWrite", "poll_write_vectored", "prov">> }
  \cup { <<"futures::AsyncBufRead", "poll_fill_buf", "req">>, <<"futures::AsyncBufRead", "consume", "req">>, <<"futures::AsyncRead", "poll_read", "req">>,
         <<"futures::AsyncRead", "poll_read_vectored", "prov">>, <<"futures::AsyncSeek", "poll_seek", "req">>,
         <<"futures::AsyncWrite", "poll_write", "req">>, <<"futures::AsyncWrite", "poll_flush", "req">>, <<"futures::AsyncWrite", "poll_close", "req">>,
         <<"futures::AsyncWrite", "poll_write_vectored", "prov">> }
  \cup { <<"hal::DigitalError", "kind", "req">>, <<"hal::I2cError", "kind", "req">>, <<"hal::PwmError", "kind", "req">>, <<"hal::SpiError", "kind", "req">>,
         <<"hal::InputPin", "is_high", "req">>, <<"hal::InputPin", "is_low", "req">>,
         <<"hal::OutputPin", "set_low", "req">>, <<"hal::OutputPin", "set_high", "req">>, <<"hal::OutputPin", "set_state", "prov">>,
         <<"hal::StatefulOutputPin", "is_set_high", "req">>, <<"hal::StatefulOutputPin", "is_set_low", "req">>, <<"hal::StatefulOutputPin", "toggle", "prov">>,
         <<"hal::I2c", "transaction", "req">>, <<"hal::I2c", "read", "prov">>, <<"hal::I2c", "write", "prov">>, <<"hal::I2c", "write_read", "prov">>,
         <<"hal::SetDutyCycle", "max_duty_cycle", "req">>, <<"hal::SetDutyCycle", "set_duty_cycle", "req">>,
         <<"hal::SetDutyCycle", "set_duty_cycle_fully_off", "prov">>, <<"hal::SetDutyCycle", "set_duty_cycle_fully_on", "prov">>,
         <<"hal::SetDutyCycle", "set_duty_cycle_fraction", "prov">>, <<"hal::SetDutyCycle", "set_duty_cycle_percent", "prov">>,
         <<"hal::SpiBus", "read", "req">>, <<"hal::SpiBus", "write", "req">>, <<"hal::SpiBus", "transfer", "req">>,
         <<"hal::SpiBus", "transfer_in_place", "req">>, <<"hal::SpiBus", "flush", "req">>,
         <<"hal::SpiDevice", "transaction", "req">>, <<"hal::SpiDevice", "read", "prov">>, <<"hal::SpiDevice", "write", "prov">>,
         <<"hal::SpiDevice", "transfer", "prov">>, <<"hal::SpiDevice", "transfer_in_place", "prov">> }
\* the required methods a provided method's upstream body is built on
Basis(t, m) ==
  CASE t = "Hasher"  -> {"write"}
    [] t = "BufRead" -> {"fill_buf", "consume"}
    [] t = "Read"    -> {"read"}
    [] t = "Seek"    -> {"seek"}
    [] t = "Write"   -> {"write"}
    [] t = "DelayNs" -> {"delay_ns"}
    [] t = "hal::OutputPin" -> {"set_low", "set_high"}
    [] t = "hal::StatefulOutputPin" -> {"is_set_low"}          \* and OutputPin::set_state, a provided method of the supertrait
    [] t \in {"hal::I2c", "hal::SpiDevice"} -> {"transaction"}
    [] t = "hal::SetDutyCycle" -> IF m = "set_duty_cycle_fully_off" THEN {"set_duty_cycle"} ELSE {"max_duty_cycle", "set_duty_cycle"}
    [] t \in {"tokio::AsyncWrite", "futures::AsyncWrite"} -> {"poll_write"}
    [] t = "futures::AsyncRead" -> {"poll_read"}
    [] OTHER         -> {}
=============================================================================
