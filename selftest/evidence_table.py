#!/usr/bin/env python3
"""evidence_table.py: renders evidence/*.json as the measured-numbers table of DESIGN.md section 12.3
(between <!-- EVIDENCE:BEGIN --> and <!-- EVIDENCE:END -->)."""
import glob, json, os
VERIF = os.path.dirname(os.path.dirname(os.path.abspath(__file__)))
rows = ["| id | tier | level | TLC states | behaviours / cases / executions checked against the code | wall (s) | violations |", "|---|---|---|---|---|---|---|"]
for f in sorted(glob.glob(os.path.join(VERIF, "evidence", "C*.json"))):
    e = json.load(open(f))
    c = e["coverage"]
    c = json.loads(c) if isinstance(c, str) else c
    rows.append("| %s | %s | %s | %s | %s | %s | %s |" % (e["property_id"], e["tier"], e["level"], c.get("states"), c.get("traces_validated_against_impl"), e.get("wall_s"), e.get("violations")))
p = os.path.join(VERIF, "DESIGN.md")
s = open(p).read()
a, b = "<!-- EVIDENCE:BEGIN -->", "<!-- EVIDENCE:END -->"
if a in s:
    s = s[:s.index(a) + len(a)] + "\n" + "\n".join(rows) + "\n" + s[s.index(b):]
    open(p, "w").write(s)
print("\n".join(rows))
