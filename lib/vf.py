"""Shared machinery of /verif/bin/check: build the harness from /repo's working tree, run TLC
instances, pipe emitted behaviours into the replay harness, write evidence, print verdict lines."""
import json, os, re, subprocess, sys, time, shutil, hashlib

VERIF = os.path.dirname(os.path.dirname(os.path.abspath(__file__)))
TLA = os.path.join(VERIF, "tla")
WORK = os.path.join(VERIF, "work")
HARNESS = os.path.join(VERIF, "harness")
VH = os.path.join(WORK, "target", "debug", "vh")
EVID = os.path.join(VERIF, "evidence")
REPLAYS = os.path.join(EVID, "replays")
KNOWN = os.path.join(VERIF, "known_findings.json")


class ToolError(Exception):
    pass


def log(*a):
    print(*a, file=sys.stderr, flush=True)


def seed():
    try:
        return int(os.environ.get("VERIF_SEED", "1"))
    except ValueError:
        return 1


VH_NOSTD = os.path.join(WORK, "target_nostd", "debug", "vh")
VH_NOMUTEX = os.path.join(WORK, "target_nomutex", "debug", "vh")


def build_harness(nostd=False, nomutex=False):
    """cargo build of the harness crate (path dependency on /repo => rebuilds from the working tree).
    nostd: unimock built without std (critical-section + spin-lock), separate target directory."""
    t = time.time()
    cmd = ["cargo", "build", "--offline"]
    if nostd:
        cmd += ["--no-default-features", "--features", "nostd", "--target-dir", os.path.join(WORK, "target_nostd")]
    if nomutex:
        # critical-section only: no mutex API at all (single-use returns cannot be stored); replay only
        cmd += ["--no-default-features", "--features", "nomutex", "--target-dir", os.path.join(WORK, "target_nomutex")]
    env = dict(os.environ)
    env["CARGO_NET_OFFLINE"] = "true"
    p = subprocess.run(cmd, cwd=HARNESS, env=env, capture_output=True, text=True)
    if p.returncode != 0:
        log(p.stderr[-4000:])
        raise ToolError("harness does not build against /repo's working tree")
    return time.time() - t


def cfg_text(inst):
    lines = ["SPECIFICATION %s" % inst.get("spec", "MCSpec"), "CONSTANTS"]
    for k, v in inst["constants"].items():
        if isinstance(v, bool):
            lines.append("  %s = %s" % (k, "TRUE" if v else "FALSE"))
        elif isinstance(v, int):
            lines.append("  %s = %d" % (k, v))
        elif isinstance(v, str) and v.startswith("<-"):
            lines.append("  %s <- %s" % (k, v[2:].strip()))
        else:
            lines.append("  %s = %s" % (k, v))
    if inst.get("invariants"):
        lines.append("INVARIANTS " + " ".join(inst["invariants"]))
    if inst.get("properties"):
        lines.append("PROPERTIES " + " ".join(inst["properties"]))
    if inst.get("constraint"):
        lines.append("CONSTRAINT " + inst["constraint"])
    if inst.get("view"):
        lines.append("VIEW " + inst["view"])
    if inst.get("postcondition"):
        lines.append("POSTCONDITION " + inst["postcondition"])
    lines.append("CHECK_DEADLOCK FALSE")
    return "\n".join(lines) + "\n"


STATS_RE = re.compile(r"(\d+) states generated, (\d+) distinct states found")


def tlc_cmd(inst, name, workers, simulate=None, extra=None):
    d = os.path.join(WORK, "tlc", name)
    shutil.rmtree(d, ignore_errors=True)
    os.makedirs(d, exist_ok=True)
    cfgp = os.path.join(d, name + ".cfg")
    with open(cfgp, "w") as f:
        f.write(cfg_text(inst))
    cmd = ["java", "-XX:+UseParallelGC", "-Xmx%s" % inst.get("heap", "8g"), "-Xss64m",
           "-cp", "/opt/veriftools/tla/tla2tools.jar:/opt/veriftools/tla/CommunityModules-deps.jar", "tlc2.TLC",
           "-workers", str(workers), "-metadir", os.path.join(d, "states"), "-cleanup", "-noGenerateSpecTE",
           "-config", cfgp]
    if simulate:
        cmd += ["-simulate", "num=%d" % simulate["num"], "-depth", str(simulate.get("depth", 100)), "-seed", str(seed())]
    if extra:
        cmd += extra
    cmd.append(os.path.join(TLA, inst["module"] + ".tla"))
    return cmd, d


def parse_tlc(out):
    """Return dict(states_generated, distinct, ok, violated)"""
    r = {"generated": 0, "distinct": 0, "ok": False, "violated": None, "error": None}
    for m in STATS_RE.finditer(out):
        r["generated"], r["distinct"] = int(m.group(1)), int(m.group(2))
    if "Model checking completed. No error has been found." in out or "Finished in" in out and "Error:" not in out:
        r["ok"] = True
    m = re.search(r"Invariant (\S+) is violated", out)
    if m:
        r["violated"] = m.group(1)
        r["ok"] = False
    m = re.search(r"Error: (.*)", out)
    if m and not r["violated"]:
        r["error"] = m.group(1)
        r["ok"] = False
    return r


def run_tlc(inst, name, workers=8, timeout=1200, simulate=None):
    """Exhaustive (or simulated) TLC run without emission. Returns parsed stats + raw tail."""
    cmd, d = tlc_cmd(inst, name, workers, simulate)
    t = time.time()
    try:
        p = subprocess.run(cmd, cwd=TLA, capture_output=True, text=True, timeout=timeout)
    except subprocess.TimeoutExpired:
        raise ToolError("TLC timed out on instance %s after %ds" % (name, timeout))
    finally:
        shutil.rmtree(os.path.join(d, "states"), ignore_errors=True)
    r = parse_tlc(p.stdout)
    r["wall_s"] = round(time.time() - t, 1)
    r["tail"] = p.stdout[-3000:]
    r["stdout"] = p.stdout
    if not r["ok"] and not r["violated"]:
        log(p.stdout[-3000:])
        raise ToolError("TLC failed on instance %s: %s" % (name, r["error"]))
    return r


def run_tlc_replay(inst, name, vh_args, workers=8, timeout=1200, simulate=None, vh_path=None):
    """TLC emitting instance piped into `vh <vh_args...>`; returns (tlc stats, harness result dict, harness exit)."""
    cmd, d = tlc_cmd(inst, name, workers, simulate)
    res_path = os.path.join(d, "result.json")
    tlc_log = os.path.join(d, "tlc.out")
    t = time.time()
    vh = [vh_path or VH] + [a.replace("{result}", res_path) for a in vh_args]
    with open(tlc_log, "w") as lf:
        # tee: TLC stdout goes both to the harness and (non-REPLAY lines) to a log
        p1 = subprocess.Popen(cmd, cwd=TLA, stdout=subprocess.PIPE, stderr=subprocess.STDOUT)
        errf = open(os.path.join(d, "harness.err"), "w")   # report() prints its errors to stderr
        p2 = subprocess.Popen(vh + ["--tlc-log", tlc_log], stdin=p1.stdout, cwd=VERIF, stderr=errf)
        p1.stdout.close()
        try:
            rc2 = p2.wait(timeout=timeout)
            rc1 = p1.wait(timeout=60)
        except subprocess.TimeoutExpired:
            p1.kill(); p2.kill()
            raise ToolError("TLC/replay timed out on instance %s after %ds" % (name, timeout))
        finally:
            shutil.rmtree(os.path.join(d, "states"), ignore_errors=True)
    out = open(tlc_log).read() if os.path.exists(tlc_log) else ""
    r = parse_tlc(out)
    r["wall_s"] = round(time.time() - t, 1)
    r["tail"] = out[-2000:]
    if simulate is None and not r["ok"]:
        log(out[-3000:])
        if r["violated"]:
            return r, None, rc2
        raise ToolError("TLC failed on emitting instance %s: %s" % (name, r["error"]))
    if rc2 == 2 or not os.path.exists(res_path):
        raise ToolError("replay harness failed on instance %s (exit %s)" % (name, rc2))
    return r, json.load(open(res_path)), rc2


def run_tlc_to_file(inst, name, workers=8, timeout=1200, simulate=None):
    """TLC emitting instance; stdout saved to <dir>/tlc.out. Returns (stats, path)."""
    cmd, d = tlc_cmd(inst, name, workers, simulate)
    outp = os.path.join(d, "tlc.out")
    t = time.time()
    with open(outp, "w") as f:
        try:
            subprocess.run(cmd, cwd=TLA, stdout=f, stderr=subprocess.STDOUT, timeout=timeout)
        except subprocess.TimeoutExpired:
            raise ToolError("TLC timed out on instance %s after %ds" % (name, timeout))
        finally:
            shutil.rmtree(os.path.join(d, "states"), ignore_errors=True)
    # statistics are in the non-REPLAY lines
    tail = subprocess.run("grep -v '^<<\"' %s | tail -60" % outp, shell=True, capture_output=True, text=True).stdout
    r = parse_tlc(tail)
    r["wall_s"] = round(time.time() - t, 1)
    r["tail"] = tail[-2000:]
    if simulate is None and not r["ok"]:
        log(tail[-3000:])
        if r["violated"]:
            raise ToolError("specification instance %s violates invariant %s (model error, not a verdict about the code)" % (name, r["violated"]))
        raise ToolError("TLC failed on emitting instance %s: %s" % (name, r["error"]))
    return r, outp, d


def nth_replay_line(path, n):
    """n-th (1-based) REPLAY line of a TLC output file, decoded."""
    k = 0
    with open(path) as f:
        for line in f:
            if line.startswith('<<"REPLAY", '):
                k += 1
                if k == n:
                    lit = line.rstrip("\n")[len('<<"REPLAY", '):-2]
                    return json.loads(json.loads(lit))
    return None


def load_known():
    if not os.path.exists(KNOWN):
        return []
    return json.load(open(KNOWN)).get("findings", [])


def write_evidence(pid, tier, level, coverage, assumptions, wall, violations, extra=None):
    os.makedirs(EVID, exist_ok=True)
    ev = {"property_id": pid, "tier": tier, "seed": seed(), "level": level, "coverage": coverage,
          "assumptions": assumptions, "wall_s": round(wall, 1), "violations": violations}
    if extra:
        ev.update(extra)
    with open(os.path.join(EVID, pid + ".json"), "w") as f:
        json.dump(ev, f, indent=1)


def write_replay(pid, n, doc):
    os.makedirs(REPLAYS, exist_ok=True)
    p = os.path.join(REPLAYS, "%s-%d.json" % (pid, n))
    with open(p, "w") as f:
        json.dump(doc, f, indent=1)
    return p
