------------------------------ MODULE MC_Matching -----------------------------
EXTENDS Matching, Json
CONSTANTS Fam, EmitOn
VARIABLES cs, done

\* value domains, in the order the generated program enumerates them
Dom == [int |-> <<0, 1, 2, 3>>,
        opt |-> << <<"None">>, <<"Some", 0>>, <<"Some", 1>>, <<"Some", 2>> >>,
        str |-> <<"", "a", "b", "ab">>,
        vec |-> << <<>>, <<0>>, <<1>>, <<0, 1>>, <<1, 0, 2>> >>,
        enum |-> << <<"A">>, <<"B", 0>>, <<"B", 1>>, <<"C", 0>>, <<"C", 2>> >>]
Types == {"int", "opt", "str", "vec", "enum"}

IntFull == {Wild, Bind("x"), Lit(0), Lit(2), Range(1, 2), Range(0, 3), At("x", Range(1, 3)), At("x", Lit(1)), Or(<<Lit(0), Lit(2)>>), Or(<<Lit(1), Range(2, 3)>>), Eq(2), Ne(0), Ne(3)}
IntRed == {Wild, Lit(1), Range(1, 2), Eq(2), Ne(0)}
PatsFull == [int |-> IntFull,
             opt |-> {Wild, PNone, PSome(Wild), PSome(Lit(1)), PSome(Range(1, 2)), Or(<<PNone, PSome(Lit(0))>>), Eq(<<"Some", 1>>), Ne(<<"None">>), Bind("o")},
             str |-> {Wild, Str("a"), Str(""), Or(<<Str("a"), Str("ab")>>), Eq("b"), Ne("a"), Bind("s")},
             vec |-> {Wild, Slice(<<>>, "no", <<>>), Slice(<<Lit(0)>>, "no", <<>>), Slice(<<Lit(1)>>, "yes", <<>>), Slice(<<>>, "yes", <<Lit(1)>>),
                      Slice(<<Wild>>, "yes", <<Lit(2)>>), Slice(<<Lit(0), Wild>>, "no", <<>>), Slice(<<Range(0, 1)>>, "rest", <<>>), Eq(<<0, 1>>), Ne(<<>>)},
             enum |-> {Wild, Var("A", <<>>), Var("B", <<Wild>>), Var("B", <<Lit(1)>>), Var("C", <<Range(1, 3)>>), Or(<<Var("A", <<>>), Var("C", <<Wild>>)>>), Eq(<<"B", 0>>), Ne(<<"A">>), Bind("e")}]
PatsRed == [int |-> IntRed,
            opt |-> {Wild, PSome(Lit(1)), Eq(<<"Some", 1>>)},
            str |-> {Wild, Str("a"), Ne("a")},
            vec |-> {Wild, Slice(<<Lit(1)>>, "yes", <<>>), Eq(<<0, 1>>)},
            enum |-> {Wild, Var("B", <<Wild>>), Ne(<<"A">>)}]
NoG == [g |-> "none"]
In(types, alts, guard) == [types |-> types, alts |-> alts, guard |-> guard]

\* F0: matching!()   F1: one argument, one alternative, every pattern of every type
F0 == { In(<<>>, <<>>, NoG) }
F1 == UNION { { In(<<t>>, << <<pt>> >>, NoG) : pt \in PatsFull[t] } : t \in Types }
\* F2: two arguments (int, T)
F2 == UNION { { In(<<"int", t>>, << <<a, b>> >>, NoG) : a \in IntRed, b \in PatsRed[t] } : t \in Types }
\* F3: two alternatives
F3a == UNION { { In(<<t>>, << <<a>>, <<b>> >>, NoG) : a \in PatsRed[t], b \in PatsRed[t] } : t \in Types }
F3b == { In(<<"int", "int">>, << <<a, b>>, <<c, d>> >>, NoG) : a \in {Wild, Lit(1), Eq(2)}, b \in {Wild, Eq(1), Ne(0)}, c \in {Lit(0), Eq(3), Wild}, d \in {Lit(2), Wild} }
\* F4: guards over bindings, alone and combined with eq!/ne! and with alternatives
Guards1 == { [g |-> "ge", x |-> "x", k |-> 2], [g |-> "or2", x |-> "x", k1 |-> 1, k2 |-> 2] }
F4a == { In(<<"int", "int">>, << <<Bind("x"), b>> >>, g) : b \in {Wild, Lit(1), Eq(2), Ne(0), Range(0, 1)}, g \in Guards1 }
       \cup { In(<<"int", "int">>, << <<Bind("x"), Bind("y")>> >>, [g |-> "ne2", x |-> "x", y |-> "y"]) }
       \cup { In(<<"int">>, << <<At("x", Range(0, 2))>> >>, g) : g \in Guards1 }
F4b == { In(<<"int", "int">>, << <<a, Bind("x")>>, <<Bind("x"), b>> >>, g) : a \in {Lit(0), Eq(1), Wild}, b \in {Lit(0), Ne(2)}, g \in Guards1 }
\* F5: three arguments
F5 == { In(<<"int", "str", "opt">>, << <<a, b, c>> >>, NoG) : a \in {Lit(1), Eq(2), Wild}, b \in {Str("a"), Wild, Ne("a")}, c \in {PNone, Eq(<<"Some", 1>>), Wild} }
      \cup { In(<<"int", "int", "int">>, << <<Bind("x"), Eq(1), Bind("y")>> >>, [g |-> "ne2", x |-> "x", y |-> "y"]) }
\* F6: guards on outside state (no binding), in particular on patterns made of wildcards only
GuardsExt == { [g |-> "ext", v |-> TRUE], [g |-> "ext", v |-> FALSE] }
F6 == { In(<<"int">>, << <<a>> >>, g) : a \in {Wild, Lit(1), Bind("x")}, g \in GuardsExt }
      \cup { In(<<"int", "int">>, << <<a, b>> >>, g) : a \in {Wild, Eq(1)}, b \in {Wild, Lit(0)}, g \in GuardsExt }
      \cup { In(<<"int", "int">>, << <<Wild, Wild>>, <<Lit(1), Wild>> >>, g) : g \in GuardsExt }
      \cup { In(<<"int", "int">>, << <<Lit(1), Wild>>, <<Wild, Wild>> >>, g) : g \in GuardsExt }
FamQ == F0 \cup F1 \cup F2 \cup F3a \cup F3b \cup F4a \cup F4b \cup F5 \cup F6
FamT == FamQ \cup UNION { { In(<<t, u>>, << <<a, b>> >>, NoG) : a \in PatsFull[t], b \in PatsRed[u] } : t \in Types, u \in Types }

\* all argument tuples of an input's types, first position slowest
RECURSIVE Tuples(_)
Tuples(types) == IF Len(types) = 0 THEN << <<>> >>
                 ELSE LET rest == Tuples(Tail(types))  d == Dom[types[1]] IN
                      [k \in 1..(Len(d) * Len(rest)) |-> <<d[((k - 1) \div Len(rest)) + 1]>> \o rest[((k - 1) % Len(rest)) + 1]]
Bits(input) == LET ts == Tuples(input.types) IN [k \in 1..Len(ts) |-> IF Stmt(input, ts[k]) THEN 1 ELSE 0]
Mism(input) == LET ts == Tuples(input.types) IN
               [k \in 1..Len(ts) |-> IF Stmt(input, ts[k]) THEN {} ELSE MismatchPositions(input, ts[k])]
Simple(input) == Len(input.alts) = 1 /\ input.guard.g = "none"

Init == cs \in (IF Fam = "Q" THEN FamQ ELSE FamT) /\ done = FALSE
Next == ~done /\ done' = TRUE /\ UNCHANGED cs
Spec == Init /\ [][Next]_<<cs, done>>
MacroIsMatch == LET ts == Tuples(cs.types) IN \A k \in 1..Len(ts) : MacroOK(cs, ts[k])
Emit == (EmitOn /\ done) => PrintT(<<"CASE", ToJson([input |-> cs, bits |-> Bits(cs), mism |-> IF Simple(cs) THEN Mism(cs) ELSE <<>>])>>)
=============================================================================
