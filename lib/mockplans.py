"""Instances of MC_Mock.tla per property and tier (what TLC enumerates), and how they are bound."""

BASE = {
    "Method": '{"r0", "r1", "r2", "d0", "d1", "t0", "b0"}',
    "Arg": "{0, 1}",
    "HasDefault": "<-cHasDefault", "HasUnmock": "<-cHasUnmock", "PartialByDef": "<-cPartialByDef",
    "RetOwned": "<-cRetOwned", "Required": "<-cRequired", "HasMutexApi": True, "HasStd": True, "PoisonArg": 9, "PoisonSet": "<-cNoPoison",
    "StrictFam": "<-cStrictBoth", "ScriptFam": "<-cNoScripts", "UpFam": "<-cNoUp", "Vias": "<-cViaDrop",
    "EmitOn": True, "OnlyMentioned": True, "StopAfterDeviation": False, "PermOn": False, "MaxCalls": 3, "MaxLeaves": 2,
}
ALL_INV = ["FirstMatchOnly", "CountIsSelections", "KthResponse", "SingleDelivery", "OrderedPrefix",
           "SlotsOnlyByOrdered", "FallbackTable", "NoFabrication", "ErrorsRemembered", "VerdictIff"]


def inst(**kw):
    c = dict(BASE)
    c.update(kw)
    return {"module": "MC_Mock", "constants": c, "invariants": ALL_INV + ["Emit"]}


# property -> tier -> list of (name, instance, harness options, simulate)
PLANS = {
    "C01": {
        "quick": [("c01q", inst(LeafFam="<-C01LeavesQ", MaxLeaves=2, MaxCalls=3), {"clones": 0}, None),
                  # the statement quantifies over the std and the no_std + spin-lock build
                  ("c01nq", inst(LeafFam="<-C01LeavesQ", MaxLeaves=2, MaxCalls=2, HasStd=False), {"nostd": True}, None)],
        "thorough": [("c01t", inst(LeafFam="<-C01LeavesT", MaxLeaves=2, MaxCalls=4), {"clones": 1}, None),
                     ("c01n", inst(LeafFam="<-C01LeavesQ", MaxLeaves=2, MaxCalls=3, HasStd=False), {"nostd": True}, None),
                     ("c01t3", inst(LeafFam="<-C01Leaves3", MaxLeaves=3, MaxCalls=5), {"clones": 0},
                      {"num": 200000, "depth": 8})],
    },
    "C02": {
        "quick": [("c02q", inst(LeafFam="<-C02LeavesQ", MaxLeaves=1, MaxCalls=5, Vias="<-cViaVerify"), {"clones": 2}, None),
                  # four- and five-segment chains (inner segment boundaries of the responder search)
                  ("c02long", inst(LeafFam="<-C02LeavesLong", MaxLeaves=1, MaxCalls=7, Vias="<-cViaVerify"), {"clones": 1}, None)],
        "thorough": [("c02t", inst(LeafFam="<-C02LeavesT", MaxLeaves=1, MaxCalls=6, Vias="<-cViaVerify"), {"clones": 2}, None),
                     ("c02long", inst(LeafFam="<-C02LeavesLong", MaxLeaves=1, MaxCalls=8, Vias="<-cViaVerify"), {"clones": 2}, None)],
    },
    "C03": {
        "quick": [("c03q", inst(LeafFam="<-C03LeavesQ", MaxLeaves=2, MaxCalls=4, StrictFam="<-cStrictOnly"),
                   {"vias": "drop,verify,report"}, None)],
        "thorough": [("c03t", inst(LeafFam="<-C03LeavesT", MaxLeaves=2, MaxCalls=4, StrictFam="<-cStrictOnly"),
                      {"vias": "drop,verify,report"}, None),
                     ("c03t3", inst(LeafFam="<-C03Leaves3", MaxLeaves=3, MaxCalls=6, StrictFam="<-cStrictOnly"),
                      {"vias": "drop,verify,report"}, {"num": 200000, "depth": 9})],
    },
    "C04": {
        "quick": [("c04q", inst(LeafFam="<-C04LeavesQ", MaxLeaves=3, MaxCalls=5, StrictFam="<-cStrictOnly", StopAfterDeviation=True), {}, None)],
        "thorough": [("c04t", inst(LeafFam="<-C04LeavesT", MaxLeaves=2, MaxCalls=6, StrictFam="<-cStrictOnly", StopAfterDeviation=True), {"clones": 1}, None),
                     ("c04tq", inst(LeafFam="<-C04LeavesQ", MaxLeaves=3, MaxCalls=6, StopAfterDeviation=True), {"clones": 1}, None),
                     ("c04t4", inst(LeafFam="<-C04LeavesQ", MaxLeaves=4, MaxCalls=8, StopAfterDeviation=True), {}, {"num": 200000, "depth": 10})],
    },
    "C07": {
        "quick": [("c07q", inst(LeafFam="<-C07Leaves", MaxLeaves=1, MaxCalls=3, OnlyMentioned=False,
                                Method='{"r0", "r1", "r2", "d0", "d1"}'), {}, None)],
        "thorough": [("c07t", inst(LeafFam="<-C07Leaves", MaxLeaves=2, MaxCalls=3, OnlyMentioned=False,
                                   Method='{"r0", "r1", "r2", "d0", "d1"}'), {"clones": 1}, None),
                     ("c07ts", inst(LeafFam="<-C07Leaves", MaxLeaves=2, MaxCalls=5, OnlyMentioned=False,
                                    Method='{"r0", "r1", "r2", "d0", "d1"}', ScriptFam="<-cScripts1"), {"clones": 1}, {"num": 300000, "depth": 8})],
    },
    "C08": {
        "quick": [("c08q", inst(LeafFam="<-C08Leaves", MaxLeaves=2, MaxCalls=3, OnlyMentioned=False, Method='{"r0", "r1", "r2", "d0"}',
                                ScriptFam="<-cNoScripts", UpFam="<-cUpBoth", Vias="<-cViaVerify"), {"clones": 1}, None),
                  # without std there is no thread::panicking(): a panic induced through an instance disables that instance's own verification
                  ("c08nq", inst(LeafFam="<-C08Leaves", MaxLeaves=1, MaxCalls=2, OnlyMentioned=False, Method='{"r0", "r1", "r2", "d0"}',
                                 ScriptFam="<-cNoScripts", UpFam="<-cUpBoth", Vias="<-cViaVerify", HasStd=False), {"nostd": True}, None)],
        "thorough": [("c08n", inst(LeafFam="<-C08Leaves", MaxLeaves=2, MaxCalls=3, OnlyMentioned=False, Method='{"r0", "r1", "r2", "d0"}',
                                   ScriptFam="<-cScripts1", UpFam="<-cUpBoth", Vias="<-cViaVerify", HasStd=False), {"nostd": True}, {"num": 60000, "depth": 6}),
                     ("c08t", inst(LeafFam="<-C08Leaves", MaxLeaves=2, MaxCalls=4, OnlyMentioned=False, Method='{"r0", "r1", "r2", "d0"}',
                                   ScriptFam="<-cScripts1", UpFam="<-cUpBoth", Vias="<-cViaAll"), {"clones": 2}, {"num": 500000, "depth": 8})],
    },
    "C12": {
        "quick": [("c12q", inst(LeafFam="<-C12Leaves", MaxLeaves=2, MaxCalls=3), {"clones": 1}, None)],
        "thorough": [("c12t", inst(LeafFam="<-C12Leaves", MaxLeaves=2, MaxCalls=5), {"clones": 2}, None)],
    },
    "C14": {
        # the feature set without any mutex API: single-use returns must be rejected when the mock is constructed,
        # everything else behaves as usual (HasStd = FALSE: no thread check, a panic through the original disables its verification)
        "quick": [("c14m", inst(LeafFam="<-C14MutexLeaves", MaxLeaves=2, MaxCalls=2, HasMutexApi=False, HasStd=False), {"nomutex": True}, None)],
        "thorough": [("c14mt", inst(LeafFam="<-C14MutexLeaves", MaxLeaves=2, MaxCalls=3, HasMutexApi=False, HasStd=False, OnlyMentioned=False,
                                    Method='{"r0", "t0", "b0", "d0"}'), {"nomutex": True}, None)],
    },
    "C15": {
        "quick": [("c15q", inst(LeafFam="<-C15LeavesQ", MaxLeaves=2, MaxCalls=2, OnlyMentioned=False, Method='{"r0", "r1", "d0", "d1"}',
                                ScriptFam="<-cScriptsQ"), {"clones": 1}, None)],
        "thorough": [("c15t", inst(LeafFam="<-C15Leaves", MaxLeaves=3, MaxCalls=4, OnlyMentioned=False, Method='{"r0", "r1", "d0", "d1"}',
                                   ScriptFam="<-cScriptsReq2", UpFam="<-cUpBoth"), {"clones": 2}, {"num": 500000, "depth": 8})],
    },
    "C16": {
        "quick": [("c16q", inst(LeafFam="<-C16LeavesQ", MaxLeaves=2, MaxCalls=2, OnlyMentioned=False, Method='{"r0", "r1", "d1"}',
                                ScriptFam="<-cScriptsR1"), {"clones": 1}, None),
                  ("c16qs", inst(LeafFam="<-C16Leaves", MaxLeaves=3, MaxCalls=3, OnlyMentioned=False, Method='{"r0", "r1", "d1"}',
                                 ScriptFam="<-cScriptsDeep"), {"clones": 1}, {"num": 4000, "depth": 6})],
        "thorough": [("c16t", inst(LeafFam="<-C16Leaves", MaxLeaves=3, MaxCalls=4, OnlyMentioned=False, Method='{"r0", "r1", "d1"}',
                                   ScriptFam="<-cScriptsDeep", UpFam="<-cUpBoth"), {"clones": 2}, {"num": 500000, "depth": 8})],
    },
    "C18": {
        "quick": [("c18q", inst(LeafFam="<-C18LeavesQ", MaxLeaves=3, MaxCalls=2, PermOn=True, StrictFam="<-cStrictOnly",
                                Method='{"r0", "r1", "r2", "g8", "g16"}'), {"clones": 2, "twin": True}, None)],
        "thorough": [("c18t", inst(LeafFam="<-C18Leaves", MaxLeaves=2, MaxCalls=3, PermOn=True,
                                   Method='{"r0", "r1", "r2", "g8", "g16"}'), {"clones": 3, "twin": True}, None),
                     # (a simulated 4-clause instance spends its time enumerating the initial states: clause lists x admissible permutations)
                     ("c18t3", inst(LeafFam="<-C18LeavesQ", MaxLeaves=3, MaxCalls=3, PermOn=True,
                                    Method='{"r0", "r1", "r2", "g8", "g16"}'), {"clones": 3, "twin": True}, None)],
    },
    "C11": {
        "quick": [("c11m", inst(LeafFam="<-C11Leaves", MaxLeaves=2, MaxCalls=3, PoisonSet="<-cPoison", UpFam="<-cUpBoth", StrictFam="<-cStrictOnly",
                                Method='{"r0", "r1"}', Vias="<-cViaVerify"), {"clones": 1}, None)],
        "thorough": [("c11mt", inst(LeafFam="<-C11Leaves", MaxLeaves=2, MaxCalls=3, PoisonSet="<-cPoison", UpFam="<-cUpBoth",
                                    Method='{"r0", "r1"}', Vias="<-cViaAll"), {"clones": 2}, None),
                     ("c11ms", inst(LeafFam="<-C11Leaves", MaxLeaves=2, MaxCalls=6, PoisonSet="<-cPoison", UpFam="<-cUpBoth",
                                    Method='{"r0", "r1"}', Vias="<-cViaAll"), {"clones": 1}, {"num": 150000, "depth": 9})],
    },
}
