"""C14: static clause tuples (trees), flat clause lists with inconsistent set-ups, compile-fail chains."""
import json

HEAD = """mod prelude;
use prelude::*;
use unimock::*;

#[unimock(api=UMock)]
pub trait U {
    fn r0(&self, a: u8) -> Val;
    fn r1(&self, a: u8) -> Val;
    fn r2(&self, a: u8) -> Val;
    fn t0(&self, a: u8) -> Tok;
}
"""


def seg_call(seg, val_expr):
    k = seg["k"]
    if k == "val":
        s = ".returns(%s)" % val_expr
    elif k == "answer":
        s = ".answers(&|_, _| %s)" % val_expr
    else:
        raise ValueError(k)
    q = seg["q"]
    if q == "once":
        s += ".once()"
    elif q == "n":
        s += ".n_times(%d)" % seg["n"]
    elif q == "atleast":
        s += ".at_least_times(%d)" % seg["n"]
    return s


def chain_expr(method, form, pred_pat, chain, ids, tok=False):
    """Rust expression of one terminal clause."""
    mk = (lambda i: "Tok::new(%d)" % i) if tok else (lambda i: "Val::new(%d)" % i)
    start = {"some": "some_call", "each": "each_call", "next": "next_call"}.get(form)
    body = ".then()".join(seg_call(s, mk(ids + k)) for k, s in enumerate(chain))
    if form == "stub":
        return "UMock::%s.stub(|each| { each.call(matching!(%s))%s; })" % (method, pred_pat, body)
    return "UMock::%s.%s(matching!(%s))%s" % (method, start, pred_pat, body)


def tree_expr(t):
    if "leaf" in t:
        k = t["leaf"]
        return "UMock::r0.next_call(matching!(%d)).returns(Val::new(%d))" % (k, k)
    kids = t["kids"]
    if len(kids) == 0:
        return "()"
    if len(kids) == 1:
        return tree_expr(kids[0])
    return "(" + ", ".join(tree_expr(k) for k in kids) + ",)"


def leaf_expr(leaf, li):
    if leaf["form"] == "stub" and len(leaf["pats"]) == 0:
        return "UMock::%s.stub(|_each| {})" % leaf["m"]
    return chain_expr(leaf["m"], leaf["form"], "_", leaf["pats"][0]["chain"], li * 10)


def render_run(tree_cases, seq_cases):
    out = [HEAD]
    fns = []
    exp = {}
    for n, c in enumerate(tree_cases):
        cid = "t%d" % n
        order = c["order"]
        calls = "".join("    outs.push(res_json(&observe(|| u.r0(%d), |r| r.show())));\n" % k for k in order)
        out.append("""
fn %s() {
    let built = std::panic::catch_unwind(std::panic::AssertUnwindSafe(|| Unimock::new(%s)));
    let u = match built { Ok(u) => u, Err(p) => { emit("%s", vec![("new", jstr(&panic_text(p)))]); return; } };
    let mut outs: Vec<String> = vec![];
%s    let fin = observe(move || u.verify(), |_| "silent".to_string());
    emit("%s", vec![("outs", format!("[{}]", outs.join(","))), ("fin", res_json(&fin))]);
}""" % (cid, tree_expr(c["tree"]), cid, calls, cid))
        fns.append(cid)
        exp[cid] = {"kind": "tree", "order": order, "tree": c["tree"], "src": tree_expr(c["tree"])}
    for n, c in enumerate(seq_cases):
        cid = "s%d" % n
        leaves = c["leaves"]
        tup = ("(" + ", ".join(leaf_expr(l, i + 1) for i, l in enumerate(leaves)) + ",)") if len(leaves) > 1 else leaf_expr(leaves[0], 1)
        out.append("""
fn %s() {
    let built = std::panic::catch_unwind(std::panic::AssertUnwindSafe(|| Unimock::new(%s)));
    match built {
        Ok(u) => { let _ = observe(move || drop(u.no_verify_in_drop()), |_| String::new()); emit("%s", vec![("new", jstr("ok"))]); }
        Err(p) => emit("%s", vec![("new", jstr(&panic_text(p)))]),
    }
}""" % (cid, tup, cid, cid))
        fns.append(cid)
        exp[cid] = {"kind": "seq", "new": c["new"], "offences": c.get("offences", []), "src": tup, "n": len(leaves)}
    out.append("\nfn main() {\n    std::panic::set_hook(Box::new(|_| {}));\n" + "".join("    %s();\n" % f for f in fns) + "}\n")
    return "\n".join(out), exp


def compare_run(exp, obs_lines):
    obs = {o["case"]: o for o in obs_lines}
    divs = []
    for cid, e in exp.items():
        o = obs.get(cid)
        if o is None:
            divs.append({"case": cid, "what": "case produced no observation", "expected": None, "observed": None, "exp": e})
            continue
        if e["kind"] == "tree":
            if "new" in o:
                divs.append({"case": cid, "what": "a well-formed clause tree was rejected", "expected": "constructed", "observed": o["new"], "exp": e})
                continue
            want = [{"ok": "O%dg0" % k} for k in e["order"]]
            if o["outs"] != want or o["fin"] != {"ok": "silent"}:
                divs.append({"case": cid, "what": "nested clause tuple is not equivalent to listing its terminal clauses left to right",
                             "expected": {"outs": want, "fin": "silent"}, "observed": {"outs": o["outs"], "fin": o["fin"]}, "exp": e})
        else:
            k = e["new"]["k"]
            got = o["new"]
            if k == "ok":
                if got != "ok":
                    divs.append({"case": cid, "what": "a consistent clause list was rejected at construction", "expected": "ok", "observed": got, "exp": e})
            else:
                markers = {"EmptyStub": "Stub contained no call patterns", "ModeConflict": "cannot be mixed for the same MockFn", "NoMutexApi": "No Mutex API"}
                # any one of the reasons the list must be rejected for is a correct report (the statement does not say which comes first)
                allowed = e["offences"] or [e["new"]]
                def reports(off):
                    return markers[off["k"]] in got and (off["k"] != "ModeConflict" or ("U::%s " % off["m"]) in got)
                if got == "ok":
                    divs.append({"case": cid, "what": "an inconsistent set-up (%s) was not rejected when the mock was constructed" % k, "expected": e["new"], "observed": "constructed", "exp": e})
                elif not any(reports(off) for off in allowed):
                    divs.append({"case": cid, "what": "construction failed, but not with any of the reasons this clause list must be rejected for", "expected": allowed, "observed": got, "exp": e})
    return divs


def render_chains(chain_cases):
    """One function per chain in src/bin/chains.rs; returns (source, [(first_line, last_line, case)])"""
    lines = ["#![allow(unused, unused_must_use)]", "#[path = \"../prelude.rs\"] mod prelude;", "use prelude::*;", "use unimock::*;", "",
             "#[unimock(api=UMock)]", "pub trait U {", "    fn r0(&self, a: u8) -> Val;", "    fn t0(&self, a: u8) -> Tok;", "}", ""]
    spans = []
    for n, c in enumerate(chain_cases):
        method = "r0" if c["clone"] else "t0"
        expr = chain_expr(method, c["form"], "_", c["chain"], 1, tok=not c["clone"])
        first = len(lines) + 1
        lines.append("fn chain_%d() {" % n)
        lines.append("    let _clause = %s;" % expr)
        lines.append("}")
        spans.append((first, len(lines), dict(c, src=expr)))
    lines.append("fn main() {}")
    return "\n".join(lines) + "\n", spans
