------------------------------ MODULE MC_Mirrors ------------------------------
EXTENDS Shapes, Json
CONSTANTS EmitOn
VARIABLES cs, done
Init == cs \in Mirrors /\ done = FALSE
Next == ~done /\ done' = TRUE /\ UNCHANGED cs
Spec == Init /\ [][Next]_<<cs, done>>
\* every provided method has a non-empty basis among the required methods of its trait (or none at all: Error::source)
BasisIsRequired == cs[3] = "prov" => \A b \in Basis(cs[1], cs[2]) : <<cs[1], b, "req">> \in Mirrors
Emit == (EmitOn /\ done) => PrintT(<<"CASE", ToJson([trait |-> cs[1], method |-> cs[2], kind |-> cs[3], basis |-> Basis(cs[1], cs[2])])>>)
=============================================================================
