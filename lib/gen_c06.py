"""C06 (and the mismatch-position half of C19): render Matching.tla inputs as matching!(...) invocations and as
plain Rust `match` expressions; observe accept/reject for every argument tuple of the domain."""
import json, re

RTYPE = {"int": "u8", "opt": "Option<u8>", "str": "String", "vec": "Vec<u8>", "enum": "E"}
DOMFN = {"int": "dom_int()", "opt": "dom_opt()", "str": "dom_str()", "vec": "dom_vec()", "enum": "dom_enum()"}

HEAD = """mod prelude;
use prelude::*;
use unimock::*;

#[derive(Debug, Clone, PartialEq)]
pub enum E { A, B(u8), C { x: u8 } }
/// a condition on outside state (kept opaque to the optimiser and to the macro)
#[inline(never)]
fn outside(v: bool) -> bool { std::hint::black_box(v) }
fn dom_int() -> Vec<u8> { vec![0, 1, 2, 3] }
fn dom_opt() -> Vec<Option<u8>> { vec![None, Some(0), Some(1), Some(2)] }
fn dom_str() -> Vec<String> { vec!["".into(), "a".into(), "b".into(), "ab".into()] }
fn dom_vec() -> Vec<Vec<u8>> { vec![vec![], vec![0], vec![1], vec![0, 1], vec![1, 0, 2]] }
fn dom_enum() -> Vec<E> { vec![E::A, E::B(0), E::B(1), E::C { x: 0 }, E::C { x: 2 }] }

fn bit(r: Result<(), String>, reject_marker: &str) -> char {
    match r { Ok(()) => '1', Err(m) => if m.contains(reject_marker) { '0' } else { 'E' } }
}
/// positions listed in a mismatch report ("... mismatch for input #j")
fn positions(r: &Result<(), String>) -> String {
    match r {
        Ok(()) => "-".to_string(),
        Err(m) => {
            let mut v: Vec<usize> = vec![];
            for part in m.split("mismatch for input #").skip(1) {
                let d: String = part.chars().take_while(|c| c.is_ascii_digit()).collect();
                if let Ok(n) = d.parse::<usize>() { if !v.contains(&n) { v.push(n); } }
            }
            v.sort();
            v.iter().map(|n| n.to_string()).collect::<Vec<_>>().join(".")
        }
    }
}
fn run<R>(f: impl FnOnce() -> R) -> Result<(), String> {
    match std::panic::catch_unwind(std::panic::AssertUnwindSafe(f)) { Ok(_) => Ok(()), Err(p) => Err(panic_text(p)) }
}
"""


def val(ty, v):
    if ty == "int":
        return str(v)
    if ty == "opt":
        return "None" if v[0] == "None" else "Some(%d)" % v[1]
    if ty == "str":
        return json.dumps(v)
    if ty == "vec":
        return "vec![%s]" % ", ".join("%du8" % x for x in v) if v else "Vec::<u8>::new()"
    if ty == "enum":
        return {"A": "E::A", "B": "E::B(%s)", "C": "E::C { x: %s }"}[v[0]] % tuple(v[1:]) if v[0] != "A" else "E::A"
    raise ValueError(ty)


def operand(ty, v):
    """operand of eq!/ne! (compared with a reference to the argument)"""
    if ty == "str":
        return json.dumps(v)
    return "&" + val(ty, v)


def pat(ty, p):
    c = p["p"]
    if c == "wild":
        return "_"
    if c == "lit":
        return str(p["v"])
    if c == "range":
        return "%d..=%d" % (p["lo"], p["hi"])
    if c == "bind":
        return p["x"]
    if c == "at":
        return "%s @ %s" % (p["x"], pat(ty, p["sub"]))
    if c == "or":
        return " | ".join(pat(ty, a) for a in p["alts"])
    if c == "none":
        return "None"
    if c == "some":
        s = pat("int", p["sub"])
        return "Some(%s)" % s
    if c == "str":
        return json.dumps(p["s"])
    if c == "slice":
        parts = [pat("int", x) for x in p["pre"]]
        if p["rest"] == "yes":
            parts.append("..")
        elif p["rest"] != "no":
            parts.append("%s @ .." % p["rest"])
        parts += [pat("int", x) for x in p["post"]]
        return "[%s]" % ", ".join(parts)
    if c == "var":
        subs = [pat("int", x) for x in p["subs"]]
        if p["name"] == "A":
            return "E::A"
        if p["name"] == "B":
            return "E::B(%s)" % subs[0]
        return "E::C { x: %s }" % subs[0]
    raise ValueError(c)


def has(p, kind):
    if p["p"] == kind:
        return True
    if p["p"] == "or":
        return all(has(a, kind) for a in p["alts"])
    return False


def guard_text(g):
    if g["g"] == "ge":
        return "*%s >= %d" % (g["x"], g["k"])
    if g["g"] == "or2":
        return "*%s == %d || *%s == %d" % (g["x"], g["k1"], g["x"], g["k2"])
    if g["g"] == "ne2":
        return "%s != %s" % (g["x"], g["y"])
    if g["g"] == "ext":
        return "outside(%s)" % ("true" if g["v"] else "false")
    return None


def matching_text(inp):
    types, alts, g = inp["types"], inp["alts"], guard_text(inp["guard"])
    if not alts:
        return "matching!()"

    def elem(ty, p):
        if p["p"] == "eq":
            return "eq!(%s)" % operand(ty, p["v"])
        if p["p"] == "ne":
            return "ne!(%s)" % operand(ty, p["v"])
        return pat(ty, p)
    arms = [", ".join(elem(t, p) for t, p in zip(types, arm)) for arm in alts]
    if len(arms) == 1 and g is None:
        return "matching!(%s)" % arms[0]
    body = " | ".join("(%s)" % a for a in arms)
    return "matching!(%s%s)" % (body, (" if " + g) if g else "")


def plain_match(inp, n):
    """fn plain_n(a0: &T0, ...) -> bool : the statement's 'equivalent Rust match'"""
    types, alts, g = inp["types"], inp["alts"], guard_text(inp["guard"])
    params = ", ".join("a%d: &%s" % (i, RTYPE[t]) for i, t in enumerate(types))
    if not alts:
        return "fn plain_%d(%s) -> bool { true }" % (n, params)
    scrut = []
    for i, t in enumerate(types):
        if any(has(arm[i], "str") for arm in alts):
            scrut.append("a%d.as_str()" % i)
        elif any(has(arm[i], "slice") for arm in alts):
            scrut.append("a%d.as_slice()" % i)
        else:
            scrut.append("a%d" % i)
    arms = []
    for arm in alts:
        ps, conds = [], []
        if g:
            conds.append("(%s)" % g)
        for i, (t, p) in enumerate(zip(types, arm)):
            if p["p"] in ("eq", "ne"):
                ps.append("m%d" % i)
                conds.append("(m%d %s %s)" % (i, "==" if p["p"] == "eq" else "!=", operand(t, p["v"])))
            else:
                ps.append(pat(t, p))
        arms.append("(%s,)%s => true," % (", ".join(ps), (" if " + " && ".join(conds)) if conds else ""))
    return "#[allow(unused_variables, unreachable_patterns)]\nfn plain_%d(%s) -> bool { match (%s,) { %s _ => false } }" % (n, params, ", ".join(scrut), " ".join(arms))


def render(cases):
    out = [HEAD]
    fns = []
    exp = {}
    for n, c in enumerate(cases):
        inp = c["input"]
        types = inp["types"]
        cid = "m%d" % n
        first_line = sum(x.count("\n") + 1 for x in out) + 1
        params = "".join(", a%d: %s" % (i, RTYPE[t]) for i, t in enumerate(types))
        out.append("#[unimock(api=M%d)]\ntrait Tr%d { fn f%d(&self%s); }" % (n, n, n, params))
        out.append(plain_match(inp, n))
        mt = matching_text(inp)
        loops_open = "".join("for a%d in %s { " % (i, DOMFN[t]) for i, t in enumerate(types))
        loops_close = "}" * len(types)
        args_clone = ", ".join("a%d.clone()" % i for i in range(len(types)))
        args_ref = ", ".join("&a%d" % i for i in range(len(types)))
        out.append("""
fn %(cid)s() {
    let mut ub = String::new(); let mut ob = String::new(); let mut rb = String::new(); let mut mp: Vec<String> = vec![];
    let u = Unimock::new(M%(n)d::f%(n)d.each_call(%(mt)s).returns(()));
    %(open)s
        ub.push(bit(run(|| u.f%(n)d(%(clone)s)), "No matching call patterns"));
        let o = Unimock::new(M%(n)d::f%(n)d.next_call(%(mt)s).returns(())).no_verify_in_drop();
        let r = run(|| o.f%(n)d(%(clone)s));
        mp.push(positions(&r));
        ob.push(bit(r, "inputs didn't match"));
        rb.push(if plain_%(n)d(%(ref)s) { '1' } else { '0' });
    %(close)s
    let _ = run(move || drop(u.no_verify_in_drop()));
    emit("%(cid)s", vec![("U", jstr(&ub)), ("O", jstr(&ob)), ("R", jstr(&rb)), ("MP", jstr(&mp.join(",")))]);
}""" % {"cid": cid, "n": n, "mt": mt, "open": loops_open, "close": loops_close, "clone": args_clone, "ref": args_ref})
        fns.append(cid)
        bits = "".join(str(b) for b in c["bits"])
        mism = None
        if c["mism"]:
            mism = ",".join("-" if b == 1 else ".".join(str(x - 1) for x in sorted(m)) for b, m in zip(c["bits"], c["mism"]))
        exp[cid] = {"bits": bits, "matching": mt, "input": inp, "mism": mism, "src_case": c,
                    "lines": [first_line, sum(x.count("\n") + 1 for x in out)]}
    out.append("\nfn main() {\n    std::panic::set_hook(Box::new(|_| {}));\n" + "".join("    %s();\n" % f for f in fns) + "}\n")
    return "\n".join(out), exp


def compare(exp, obs_lines):
    """Returns (divergences for C06, divergences for C19 mismatch positions, model_errors)."""
    obs = {o["case"]: o for o in obs_lines}
    d06, d19, model_err = [], [], []
    for cid, e in exp.items():
        o = obs.get(cid)
        if o is None:
            d06.append({"case": cid, "what": "case produced no observation", "expected": e["bits"], "observed": None, "exp": e})
            continue
        if o["R"] != e["bits"]:
            model_err.append({"case": cid, "matching": e["matching"], "model": e["bits"], "rustc_match": o["R"]})
            continue
        for key, name in (("U", "unordered evaluation (diagnostics off)"), ("O", "ordered evaluation (diagnostics on)")):
            if o[key] != e["bits"]:
                d06.append({"case": cid, "what": "%s accepts different argument tuples than the equivalent Rust match in %s" % (e["matching"], name),
                            "expected": {"accept_bits_over_domain": e["bits"]}, "observed": {"accept_bits_over_domain": o[key]}, "exp": e})
                break
        else:
            if e["mism"] is not None and o["MP"] != e["mism"]:
                d19.append({"case": cid, "what": "mismatch report of %s does not list exactly the rejecting argument positions" % e["matching"],
                            "expected": {"positions_per_tuple": e["mism"]}, "observed": {"positions_per_tuple": o["MP"]}, "exp": e})
    return d06, d19, model_err
