#!/usr/bin/env python3
"""run_equivalent.py [--repo DIR] [--verif DIR] [NAME ...]
Applies each behaviour-preserving refactoring of selftest/equivalent/*.diff to a SCRATCH copy of the
repository, runs the repository's test suite and every quick check, and records the exit codes in
selftest/equivalent_results.json.  Every check must exit 0 on every refactoring: an exit 1 here is a
false alarm of the machinery (its oracle demands more than the property states)."""
import glob, json, os, subprocess, sys, time
VERIF = os.path.dirname(os.path.dirname(os.path.abspath(__file__)))
IDS = ["C%02d" % i for i in range(1, 21)]

def sh(cmd, cwd=None, timeout=7200):
    return subprocess.run(cmd, shell=True, cwd=cwd, capture_output=True, text=True, timeout=timeout)

def main():
    a = sys.argv[1:]
    repo, verif, names, checks = "/scratch/repo", "/scratch/verif", [], IDS
    i = 0
    while i < len(a):
        if a[i] == "--repo": repo = a[i + 1]; i += 2
        elif a[i] == "--verif": verif = a[i + 1]; i += 2
        elif a[i] == "--checks": checks = a[i + 1].split(","); i += 2
        else: names.append(a[i]); i += 1
    assert os.path.realpath(repo) != "/repo"
    names = names or sorted(os.path.basename(f)[:-5] for f in glob.glob(os.path.join(VERIF, "selftest", "equivalent", "*.diff")))
    resp = os.path.join(verif, "selftest", "equivalent_results.json")
    res = json.load(open(resp)) if os.path.exists(resp) else {}
    for n in names:
        assert sh("git -C %s status --porcelain" % repo).stdout.strip() == "", "scratch repo not clean"
        r = sh("git -C %s apply %s" % (repo, os.path.join(VERIF, "selftest", "equivalent", n + ".diff")))
        if r.returncode != 0:
            print(n, "does not apply", r.stderr); continue
        rec = res.setdefault(n, {})
        try:
            b = sh("cargo nextest run --workspace --no-fail-fast --test-threads 8 --offline 2>&1 | grep Summary | tail -1", cwd=repo)
            rec["suite"] = b.stdout.strip()
            for c in checks:
                t = time.time()
                q = sh("bin/check %s --tier quick" % c, cwd=verif)
                viol = [l for l in q.stdout.splitlines() if l.startswith("VIOLATION")]
                rec[c] = {"exit": q.returncode, "violations": len(viol), "wall_s": round(time.time() - t), "first": viol[:1] + [l for l in q.stdout.splitlines() if "TOOL-ERROR" in l][:1]}
                print(n, c, "exit", q.returncode, flush=True)
                json.dump(res, open(resp, "w"), indent=1, sort_keys=True)
        finally:
            sh("git -C %s checkout -- ." % repo)
    bad = [(n, c) for n, r in res.items() for c, v in r.items() if c != "suite" and v["exit"] != 0]
    print("false alarms / tool errors:", bad)

if __name__ == "__main__":
    main()
