"""Property engines: how each property's check is decided (DESIGN.md section 6)."""
import json, os, sys, time
import vf
from vf import ToolError, log

LEVEL_MC = "model_checking"


def match_known(pid, div):
    """Return the known-finding entry that this divergence reproduces, if any (open entries only)."""
    for k in vf.load_known():
        if k.get("status") != "open" or pid not in k.get("properties", [k.get("property")]):
            continue
        m = k.get("match", {})
        beh = div.get("beh", {})
        step = beh.get("steps", [{}])[max(div.get("step", 1) - 1, 0)] if beh.get("steps") else {}
        ok = True
        if "call_method_in" in m and step.get("m") not in m["call_method_in"]:
            ok = False
        if "what_contains" in m and m["what_contains"] not in div.get("what", ""):
            ok = False
        if "expected_contains" in m and m["expected_contains"] not in json.dumps(div.get("expected")):
            ok = False
        if "observed_contains" in m and m["observed_contains"] not in json.dumps(div.get("observed")):
            ok = False
        if ok:
            return k
    return None


def report(pid, divs, total_divergences):
    """Print VIOLATION / KNOWN-FINDING lines. Returns number of violations (not known)."""
    viol = 0
    known_seen = {}
    n = 0
    for d in divs:
        if not d.get("in_scope", True):
            continue
        k = match_known(pid, d)
        if k:
            known_seen.setdefault(k["id"], k)
            continue
        n += 1
        path = vf.write_replay(pid, n, d)
        print("VIOLATION property=%s replay=%s" % (pid, path), flush=True)
        log("  %s (step %s): expected %s observed %s" % (d.get("what"), d.get("step"), json.dumps(d.get("expected"))[:300], json.dumps(d.get("observed"))[:300]))
        viol += 1
    for k in known_seen.values():
        print("KNOWN-FINDING: property=%s %s" % (pid, k["what"]), flush=True)
    return viol, len(known_seen)


_COLLECT = None


def finish(pid, tier, level, cov, assumptions, t0, divs):
    """Single-engine property: report + evidence. Inside composite(): hand the part back."""
    if _COLLECT is not None:
        _COLLECT.append((level, cov, assumptions, divs))
        return 0
    viol, known = report(pid, divs, len(divs))
    vf.write_evidence(pid, tier, level, cov, assumptions, time.time() - t0, viol)
    return 1 if viol else 0


def composite(pid, tier, t0, parts):
    """A property decided by several engines: run each, merge coverage, report once."""
    global _COLLECT
    _COLLECT = []
    try:
        for label, f in parts:
            n0 = len(_COLLECT)
            f()
            for k in range(n0, len(_COLLECT)):
                _COLLECT[k][1]["part"] = label
        got = _COLLECT
    finally:
        _COLLECT = None
    cov = {"states": 0, "transitions": 0, "traces_validated_against_impl": 0, "evaluations": 0, "distinct_nontrivial": 0,
           "samples": [], "parts": [], "rule": "", "exhaustive": True}
    assumptions = []
    divs = []
    level = "exploration"
    for (lv, c, a, d) in got:
        if lv == LEVEL_MC:
            level = LEVEL_MC
        for k in ("states", "transitions", "traces_validated_against_impl", "evaluations", "distinct_nontrivial"):
            cov[k] += c.get(k, 0)
        cov["samples"] += c.get("samples", [])[:2]
        cov["exhaustive"] = cov["exhaustive"] and c.get("exhaustive", False)
        cov["rule"] += "[%s] %s  " % (c.get("part"), c.get("rule", ""))
        cov["parts"].append({k: v for k, v in c.items() if k not in ("samples", "rule")})
        for x in a:
            if x not in assumptions:
                assumptions.append(x)
        divs += d
    if cov["states"] == 0:
        cov["states"] = cov["transitions"] = 1
    # the evidence carries the level the manifest claims for the property (a composite claimed as "exploration" stays one
    # even if one of its parts is a model-checked replay)
    try:
        import manifest_gen
        level = manifest_gen.CHECKS[pid][0]
    except Exception:
        pass
    return finish(pid, tier, level, cov, assumptions, t0, divs)


def run_mock(pid, tier, t0, plans, assumptions, rule, level_note=None, plan_key=None):
    entries = plans[plan_key or pid][tier]
    cov = {"states": 0, "transitions": 0, "traces_validated_against_impl": 0, "samples": [], "instances": [],
           "evaluations": 0, "distinct_nontrivial": 0, "rule": rule, "exhaustive": True}
    all_divs = []
    total_div = 0
    drift = []
    for (name, inst, hopts, sim) in entries:
        args = ["replay", "{result}", "--seed", str(vf.seed())]
        for k, v in hopts.items():
            if k == "clones" and v:
                args += ["--clones", str(v)]
            if k == "vias":
                args += ["--vias", v]
            if k == "twin" and v:
                args += ["--twin"]
        workers = 8
        vh_path = None
        if hopts.get("nostd"):
            vf.build_harness(nostd=True)
            vh_path = vf.VH_NOSTD
        if hopts.get("nomutex"):
            vf.build_harness(nomutex=True)
            vh_path = vf.VH_NOMUTEX
        r, res, rc = vf.run_tlc_replay(inst, name, args, workers=workers, timeout=3000 if tier == "thorough" else 900, simulate=sim, vh_path=vh_path)
        if r.get("violated"):
            # the specification itself violates one of its property-shaped invariants: the model is wrong
            raise ToolError("specification instance %s violates invariant %s (model error, not a verdict about the code)" % (name, r["violated"]))
        st = res["stats"]
        if sim is None:
            cov["states"] += r["distinct"]
            cov["transitions"] += r["generated"]
        else:
            cov["exhaustive"] = False
            cov["states"] += r["generated"]
            cov["transitions"] += r["generated"]
        cov["traces_validated_against_impl"] += st["behaviours"]
        cov["evaluations"] += st["behaviours"]
        cov["distinct_nontrivial"] += st.get("with_calls", 0)
        cov["instances"].append({"name": name, "mode": "simulate" if sim else "exhaustive", "tlc_distinct_states": r["distinct"],
                                 "tlc_states_generated": r["generated"], "tlc_wall_s": r["wall_s"], "replay": st,
                                 "routed_over_clones": res.get("routed_over_clones", 0), "unimock_build": "no_std + critical-section + spin-lock" if hopts.get("nostd") else "no_std + critical-section, no mutex API" if hopts.get("nomutex") else "std",
                                 "constants": {k: v for k, v in inst["constants"].items() if k in ("LeafFam", "MaxLeaves", "MaxCalls", "Arg", "ScriptFam", "StrictFam", "Vias", "UpFam")}})
        if len(cov["samples"]) < 3:
            cov["samples"] += res.get("samples", [])[:2]
        all_divs += res["divergences"]
        total_div += st["divergences"]
        drift += [d for d in res["divergences"] if not d.get("in_scope", True)][:3]
        if st["behaviours"] == 0:
            raise ToolError("instance %s emitted no behaviours" % name)
    if total_div > 0 and not [d for d in all_divs if d.get("in_scope", True)]:
        raise ToolError("divergences counted but none recorded")
    cov["divergent_behaviours"] = total_div
    cov["drift"] = [{"what": d["what"], "expected": d["expected"], "observed": d["observed"]} for d in drift]
    cov["checker_cmd"] = "tlc MC_Mock.tla (instances above) | harness vh replay"
    return finish(pid, tier, LEVEL_MC, cov, assumptions, t0, all_divs)


LIFE_BASE = {"MaxInst": 2, "Thread": "<-T2", "Creator": 0, "MaxSteps": 4, "MaxVals": 4, "GuardPos": '"early"', "Ops": "<-AllOps", "EmitOn": True}
LIFE_INV = ["NoDoublePanic", "ClonesNeverVerify", "VerifyPanicsIff", "ReportAgrees", "VerifiedAtMostOnce", "OrigGoneAfterVerify",
            "ChainsDisjoint", "LiveValsNotGone", "StoredWhileShared"]


def life_inst(**kw):
    c = dict(LIFE_BASE)
    c.update(kw)
    return {"module": "MC_Life", "constants": c, "invariants": LIFE_INV + ["Emit"]}


# simulate: TLC evaluates the emitting invariant on every successor it generates while walking, so one walk of depth d
# yields about d x branching behaviours (prefixes and siblings): num = 15 000 walks give ~1.3 million sequences
LIFE_PLANS = {
    "C09": {"quick": [("c09q", life_inst(Ops="<-C09Ops", MaxSteps=4), None)],
            "thorough": [("c09t", life_inst(Ops="<-C09Ops", MaxSteps=5), None),
                         ("c09t3", life_inst(Ops="<-C09Ops", MaxSteps=8, MaxInst=3), {"num": 15000, "depth": 9})]},
    "C11": {"quick": [("c11q", life_inst(Ops="<-C11Ops", MaxSteps=4), None)],
            "thorough": [("c11t", life_inst(Ops="<-C11Ops", MaxSteps=5), None),
                         ("c11t3", life_inst(Ops="<-C11Ops", MaxSteps=8, MaxInst=3), {"num": 8000, "depth": 9})]},
    "C13": {"quick": [("c13q", life_inst(Ops="<-C13Ops", MaxSteps=5, MaxVals=6), None)],
            "thorough": [("c13t", life_inst(Ops="<-C13Ops", MaxSteps=6, MaxVals=8), None),
                         ("c13t3", life_inst(Ops="<-C13Ops", MaxSteps=10, MaxInst=3, MaxVals=12), {"num": 8000, "depth": 11})]},
}


def life_sensitivity():
    """The model must notice a misplaced unwinding guard (otherwise NoDoublePanic is vacuous)."""
    out = {}
    for pos in ("afterClone", "afterThread"):
        inst = life_inst(GuardPos='"%s"' % pos, EmitOn=False, MaxSteps=4)
        r = vf.run_tlc(inst, "life_sens_" + pos, workers=4, timeout=600)
        out[pos] = r["violated"]
        if r["violated"] != "NoDoublePanic":
            raise ToolError("sensitivity run GuardPos=%s did not violate NoDoublePanic (%s): the invariant is vacuous" % (pos, r["violated"]))
    return out


def run_life(pid, tier, t0, rule, assumptions, extra_runs=None, plan_key=None):
    import subprocess
    cov = {"states": 0, "transitions": 0, "traces_validated_against_impl": 0, "samples": [], "instances": [],
           "evaluations": 0, "distinct_nontrivial": 0, "rule": rule, "exhaustive": True}
    all_divs = []
    for (name, inst, sim) in LIFE_PLANS[plan_key or pid][tier]:
        r, outp, d = vf.run_tlc_to_file(inst, name, workers=8, timeout=3000 if tier == "thorough" else 900, simulate=sim)
        res_path = os.path.join(d, "result.json")
        prog = os.path.join(d, "progress")
        skip = 0
        merged = {"behaviours": 0, "steps": 0, "divergences": 0, "ops": {}, "outcomes": {}, "aborts": 0}
        samples = []
        while True:
            if os.path.exists(res_path):
                os.remove(res_path)
            p = subprocess.run([vf.VH, "life", outp, res_path, "--skip", str(skip), "--progress", prog,
                                "--max-inst", str(inst["constants"]["MaxInst"]), "--max-vals", str(inst["constants"]["MaxVals"])],
                               cwd=vf.VERIF, stderr=subprocess.DEVNULL)
            if p.returncode in (0, 1) and os.path.exists(res_path):
                res = json.load(open(res_path))
                for k in ("behaviours", "steps", "divergences"):
                    merged[k] += res["stats"][k]
                for k in ("ops", "outcomes"):
                    for kk, vv in res["stats"][k].items():
                        merged[k][kk] = merged[k].get(kk, 0) + vv
                all_divs += res["divergences"]
                samples += res["samples"]
                break
            if p.returncode == 2:
                raise ToolError("lifecycle harness failed on %s" % name)
            # the harness process died: a panic while unwinding aborted it (C11) -- find the behaviour
            idx = int(open(prog).read().strip() or "0")
            beh = vf.nth_replay_line(outp, idx)
            merged["aborts"] += 1
            merged["divergences"] += 1
            merged["behaviours"] += idx - skip
            all_divs.append({"what": "process aborted (signal %s): a second panic while unwinding" % (-p.returncode if p.returncode < 0 else p.returncode),
                             "step": 0, "expected": "every drop during unwinding is silent", "observed": "abort", "beh": beh, "in_scope": True, "abort": True})
            skip = idx
            if merged["aborts"] >= 8:
                break
        if sim is None:
            cov["states"] += r["distinct"]; cov["transitions"] += r["generated"]
        else:
            cov["exhaustive"] = False
            cov["states"] += r["generated"]; cov["transitions"] += r["generated"]
        cov["traces_validated_against_impl"] += merged["behaviours"]
        cov["evaluations"] += merged["behaviours"]
        cov["distinct_nontrivial"] += merged["behaviours"]
        cov["instances"].append({"name": name, "mode": "simulate" if sim else "exhaustive", "tlc_distinct_states": r["distinct"],
                                 "tlc_states_generated": r["generated"], "tlc_wall_s": r["wall_s"], "replay": merged,
                                 "constants": {k: v for k, v in inst["constants"].items()}})
        if len(cov["samples"]) < 2:
            cov["samples"] += samples[:2]
        if merged["behaviours"] == 0:
            raise ToolError("instance %s emitted no behaviours" % name)
        os.remove(outp)
    if extra_runs:
        cov.update(extra_runs())
    cov["checker_cmd"] = "tlc MC_Life.tla (instances above) > behaviours; harness vh life"
    return finish(pid, tier, LEVEL_MC, cov, assumptions, t0, all_divs)


CONC_PROGS = {
    "C10": {"quick": {"dfs": [[["any", "ord"], ["any", "ord"]], [["ord", "any"], ["any", "ord"]], [["any"], ["any"], ["any"]],
                              [["ord"], ["ord"], ["ord"]], [["any", "any"], ["any", "any"]], [["ord", "ord"], ["ord"]]],
                      "random": [[["any", "ord", "any"], ["ord", "any", "any"], ["any", "ord"]]], "runs": 300,
                      "free": [[["any", "ord", "any"], ["any", "any", "ord"], ["any"], ["ord", "any"]]], "free_runs": 400,
                      "mc": [("T2", "P21"), ("T3", "P3mix"), ("T3", "P3one")]},
            "thorough": {"dfs": [[["any", "ord"], ["any", "ord"]], [["ord", "any"], ["any", "ord"]], [["any"], ["any"], ["any"], ["any"]],
                                 [["ord"], ["ord"], ["ord"]], [["any", "any", "any"], ["any", "any", "any"]], [["ord", "ord"], ["ord"]],
                                 [["any", "ord"], ["ord", "any"], ["any"]], [["any"], ["ord"], ["any"], ["ord"]], [["any", "ord", "any"], ["ord", "any", "ord"]]],
                         "random": [[["any", "ord", "any"], ["ord", "any", "any"], ["any", "ord"], ["any", "any"]]], "runs": 3000,
                         "free": [[["any", "ord", "any"], ["any", "any", "ord"], ["any"], ["ord", "any"], ["any", "any"], ["ord"], ["any"], ["any"]]], "free_runs": 5000,
                         "mc": [("T2", "P21"), ("T3", "P3mix"), ("T3", "P3one"), ("T4", "P4one"), ("T2", "P23")]}},
}
CONC_PROGS["C12"] = {
    "quick": {"dfs": [[["once"], ["once"]], [["once", "any"], ["once", "any"]], [["once"], ["once"], ["once"]], [["any", "any"], ["any", "any"]]],
              "free": [[["once"], ["once"], ["once"], ["once"]]], "free_runs": 300, "mc": [("T2", "P2once"), ("T3", "P3mix")],
              "tuple_dfs": [[["once"], ["once"]], [["once"], ["once"], ["once"]]], "tuple_free": [[["once"], ["once"], ["once"], ["once"]]]},
    "thorough": {"dfs": [[["once"], ["once"]], [["once", "any"], ["once", "any"]], [["once"], ["once"], ["once"]], [["once"], ["once"], ["once"], ["once"]],
                         [["once", "ord"], ["any", "once"], ["once"]]],
                 "random": [[["once", "any"], ["any", "once"], ["once"], ["once", "ord"]]], "runs": 3000,
                 "free": [[["once"], ["once"], ["once"], ["once"], ["once"], ["once"], ["once"], ["once"]]], "free_runs": 5000,
                 "tuple_dfs": [[["once"], ["once"]], [["once"], ["once"], ["once"]], [["once", "any"], ["any", "once"]], [["once"], ["once"], ["once"], ["once"]]],
                 "tuple_free": [[["once"], ["once"], ["once"], ["once"], ["once"], ["once"], ["once"], ["once"]]],
                 "mc": [("T2", "P2once"), ("T3", "P3mix"), ("T2", "P23")]}}
CONC_PROGS["C08"] = {
    "quick": {"dfs": [[["unm"], ["unm", "any"]], [["ord", "ord"], ["ord", "unm"]], [["once"], ["once", "unm"]]],
              "free": [[["unm"], ["ord", "ord"], ["ord", "once"], ["once", "unm"]]], "free_runs": 300, "mc": [("T3", "P3one"), ("T3", "P3mix")]},
    "thorough": {"dfs": [[["unm"], ["unm", "any"]], [["ord", "ord"], ["ord", "unm"]], [["once"], ["once", "unm"]], [["unm"], ["unm"], ["unm"]],
                         [["ord", "unm"], ["ord", "once"], ["once", "ord"]]],
                 "random": [[["unm", "ord"], ["ord", "once"], ["once", "unm"], ["ord"]]], "runs": 3000,
                 "free": [[["unm"], ["ord", "ord"], ["ord", "once"], ["once", "unm"], ["unm"], ["ord"], ["once"], ["unm"]]], "free_runs": 5000,
                 "mc": [("T3", "P3one"), ("T3", "P3mix"), ("T2", "P23")]}}
CONC_INV = ["DistinctPositions", "ResponsesArePositions", "SingleDelivery", "AllErrorsRecorded", "VerdictIsSequential"]
TLC_CP = "/opt/veriftools/tla/tla2tools.jar:/opt/veriftools/tla/CommunityModules-deps.jar"


TRACE_CFG_TESTS = 'SPECIFICATION TSpec\nCONSTRAINT Track\nPOSTCONDITION Accepted\nCHECK_DEADLOCK FALSE\n'


def run_repo_tests_as_traces(pid, tier, t0):
    """Extension (DESIGN 4.7): the repository's own test suite, built with the event hook H3 (kept as a patch
    under /verif/hooks and applied to a scratch copy of the working tree, never to /repo), traced and validated
    by TestTrace.tla.  If the patch no longer applies to the tree this part is skipped with a note."""
    import subprocess, shutil, glob
    d = os.path.join(vf.WORK, "h3")
    src = os.path.join(d, "repo")
    shutil.rmtree(src, ignore_errors=True)
    os.makedirs(d, exist_ok=True)
    subprocess.run(["rsync", "-a", "--exclude", "target", "--exclude", ".git", "/repo/", src + "/"], check=True)
    cov = {"states": 0, "transitions": 0, "traces_validated_against_impl": 0, "evaluations": 0, "distinct_nontrivial": 0, "samples": [], "exhaustive": False,
           "rule": "the repository's own tests run against the working tree built with event hook H3 (construction, matcher results of the selection pass, slot, selected pattern, position, errors, verification); every test process's event log must be accepted by TestTrace.tla (first-match selection, slot ownership, positions = match counts, responder lookup, fallback table, error recording, verdict)"}
    p = subprocess.run(["patch", "-p1", "-s", "--no-backup-if-mismatch", "-i", os.path.join(vf.VERIF, "hooks", "h3_trace.patch")], cwd=src, capture_output=True, text=True)
    if p.returncode != 0:
        cov["skipped"] = "hooks/h3_trace.patch does not apply to the current working tree: %s" % p.stdout[-300:]
        cov["states"] = cov["transitions"] = 1; cov["evaluations"] = 1; cov["distinct_nontrivial"] = 2; cov["samples"] = ["skipped"]
        return finish(pid, tier, LEVEL_MC, cov, [], t0, [])
    tdir = os.path.join(d, "traces")
    shutil.rmtree(tdir, ignore_errors=True)
    os.makedirs(tdir)
    env = dict(os.environ)
    env["RUSTFLAGS"] = "--cfg unimock_verif"
    env["UNIMOCK_VERIF_TRACE"] = os.path.join(tdir, "t")
    env["CARGO_NET_OFFLINE"] = "true"
    cmd = ["cargo", "nextest", "run", "--workspace", "--no-fail-fast", "--test-threads", "8", "--offline", "--target-dir", os.path.join(d, "target")]
    q = subprocess.run(cmd, cwd=src, env=env, capture_output=True, text=True, timeout=3000)
    if "error: no such command" in q.stderr or "nextest" in q.stderr and "not found" in q.stderr:
        q = subprocess.run(["cargo", "test", "--workspace", "--no-fail-fast", "--offline", "--target-dir", os.path.join(d, "target"), "--", "--test-threads", "1"],
                           cwd=src, env=env, capture_output=True, text=True, timeout=3000)
    files = sorted(glob.glob(os.path.join(tdir, "*.ndjson")))
    if not files:
        log(q.stderr[-2000:])
        raise ToolError("the traced test run produced no event logs")
    out = []
    skipped = 0
    for f in files:
        ev = [json.loads(x) for x in open(f) if x.strip()]
        thr = {}
        for e in ev:
            if e["ev"] in ("call", "err"):
                thr.setdefault(e["mock"], set()).add(e["thr"])
        multi = {m for m, t in thr.items() if len(t) > 1}      # events of mocks used from several threads are logged out of order
        skipped += len(multi)
        out.append(json.dumps({"ev": "reset"}))
        out += [json.dumps(e) for e in ev if e["mock"] not in multi]
    tr = os.path.join(d, "all.ndjson")
    open(tr, "w").write("\n".join(out) + "\n")
    TRACE_CFG["TestTrace"] = TRACE_CFG_TESTS
    n_events, rej, st = validate_all(tr, "testtrace_" + pid.lower(), module="TestTrace")
    divs = [{"what": "an execution of the repository's own tests is not a behaviour of the specification at event %s" % json.dumps(r_["unmatched_event"])[:400],
             "step": r_["position_in_execution"], "expected": "a step of tla/TestTrace.tla", "observed": r_["unmatched_event"],
             "beh": {"kind": "test-trace", "events": r_["events"]}, "in_scope": True} for r_ in rej]
    cov.update({"states": st, "transitions": st, "traces_validated_against_impl": len(files), "evaluations": n_events, "distinct_nontrivial": len(files),
                "samples": [json.loads(x) for x in out[1:4]], "mocks_skipped_because_multithreaded": skipped,
                "test_run_tail": q.stdout[-200:] + q.stderr[-300:]})
    shutil.rmtree(os.path.join(d, "repo"), ignore_errors=True)
    return finish(pid, tier, LEVEL_MC, cov, ["event hook H3 logs internal bookkeeping (positions, slots); it is applied to a scratch copy only and no listed property's verdict on the universe depends on it"], t0, divs)


TRACE_CFG = {
    "ConcTrace": 'SPECIFICATION TSpec\nCONSTANTS\n  Thread <- T8\n  CounterImpl = "fetch_add"\nCONSTRAINT Track\nINVARIANT TraceSingleUse\nPOSTCONDITION Accepted\nCHECK_DEADLOCK FALSE\n',
    "ChainTrace": 'SPECIFICATION TSpec\nCONSTANTS\n  Thread <- T8\n  PushImpl = "try_insert"\n  LentImpl = "fetch_add"\n  MaxCells = 16\nCONSTRAINT Track\nINVARIANTS RefsOwn NothingLost DistinctCells LentOwn\nPOSTCONDITION Accepted\nCHECK_DEADLOCK FALSE\n',
    "MockTrace": 'SPECIFICATION TSpec\nCONSTANTS\n  Method = {"r0", "r1", "r2", "d0", "d1", "t0", "b0"}\n  Arg = {0, 1, 2, 3}\n  HasDefault <- tHasDefault\n  HasUnmock <- tHasUnmock\n  PartialByDef <- tPartialByDef\n  RetOwned <- tRetOwned\n  Required <- tRequired\n  HasMutexApi = TRUE\n  HasStd = TRUE\n  PoisonArg = 9\n  MaxCalls = 100000\nCONSTRAINT Track\nINVARIANTS FirstMatchOnly CountIsSelections KthResponse SingleDelivery OrderedPrefix SlotsOnlyByOrdered FallbackTable NoFabrication ErrorsRemembered VerdictIff\nPOSTCONDITION Accepted\nCHECK_DEADLOCK FALSE\n',
}


def validate_trace(trace_path, name, module="ConcTrace"):
    """Run a trace specification on an ndjson trace. Returns (ok, unmatched_index, states)."""
    import subprocess, shutil
    d = os.path.join(vf.WORK, "tlc", name)
    shutil.rmtree(d, ignore_errors=True)
    os.makedirs(d, exist_ok=True)
    cfgp = os.path.join(d, "trace.cfg")
    cfg_text = TRACE_CFG[module]
    if module == "ChainTrace":
        # the chain has one cell per value lent in an execution (plus the vacant one at the end)
        most = cur = 0
        for line in open(trace_path):
            if '"ev":"reset"' in line or '"ev": "reset"' in line:
                cur = 0
            elif '"ev":"push"' in line or '"ev": "push"' in line:
                cur += 1
                most = max(most, cur)
        cfg_text = cfg_text.replace("MaxCells = 16", "MaxCells = %d" % max(16, most + 2))
    open(cfgp, "w").write(cfg_text)
    env = dict(os.environ); env["TRACE"] = trace_path
    dfs = ["-Dtlc2.tool.queue.IStateQueue=StateDeque"] if module in ("ConcTrace", "ChainTrace") else []
    cmd = ["java", "-XX:+UseParallelGC", "-Xss1g", "-Xmx6g"] + dfs + ["-cp", TLC_CP, "tlc2.TLC", "-workers", "1", "-metadir", os.path.join(d, "states"),
           "-cleanup", "-noGenerateSpecTE", "-config", cfgp, os.path.join(vf.TLA, module + ".tla")]
    try:
        p = subprocess.run(cmd, cwd=vf.TLA, env=env, capture_output=True, text=True, timeout=1500)
    except subprocess.TimeoutExpired:
        raise ToolError("trace validation timed out (%s)" % name)
    finally:
        shutil.rmtree(os.path.join(d, "states"), ignore_errors=True)
    out = p.stdout
    st = vf.parse_tlc(out)
    import re
    m = re.search(r'<<"UNMATCHED", (\d+),', out)
    if m:
        return False, int(m.group(1)), st
    m2 = re.search(r"Invariant (\S+) is violated", out)
    if m2:
        # an invariant of the specification fails on a state of the trace: report the trace position reached
        m3 = re.findall(r"l = (\d+)", out)
        return False, int(m3[-1]) if m3 else 1, st
    if "Model checking completed. No error has been found." in out:
        return True, None, st
    log(out[-3000:])
    raise ToolError("trace validation failed to run (%s)" % name)


CHUNK_LINES = int(os.environ.get("VF_CHUNK_LINES", "120000"))


def validate_all(trace_path, name, max_viol=5, module="ConcTrace", boundary='"reset"'):
    """Validate a concatenation of executions; long concatenations are cut at execution boundaries into pieces of
    at most CHUNK_LINES events, each validated by its own TLC run (the trace specifications reset at a boundary)."""
    lines = open(trace_path).read().splitlines()
    if len(lines) <= CHUNK_LINES:
        return validate_piece(trace_path, name, max_viol, module, boundary)
    pieces, cur = [], []
    for ln in lines:
        if boundary in ln and len(cur) >= CHUNK_LINES:
            pieces.append(cur); cur = []
        cur.append(ln)
    if cur:
        pieces.append(cur)
    total, rejected, states = 0, [], 0
    for k, piece in enumerate(pieces):
        pp = os.path.join(vf.WORK, "tlc", "%s_piece%d.ndjson" % (name, k))
        os.makedirs(os.path.dirname(pp), exist_ok=True)
        open(pp, "w").write("\n".join(piece) + "\n")
        n, rej, st = validate_piece(pp, "%s_p%d" % (name, k), max_viol - len(rejected), module, boundary)
        os.remove(pp)
        total += n; rejected += rej; states += st
        if len(rejected) >= max_viol:
            break
    return len(lines), rejected, states


def validate_piece(trace_path, name, max_viol=5, module="ConcTrace", boundary='"reset"'):
    """Validate a concatenation of executions; on a rejection record it and go on with the rest.
    Returns (n_events, list of rejected executions [{x, events, unmatched}], states)."""
    lines = open(trace_path).read().splitlines()
    rejected = []
    states = 0
    start = 0
    cur = trace_path
    round_ = 0
    while True:
        ok, idx, st = validate_trace(cur, "%s_r%d" % (name, round_), module)
        states += st["distinct"]
        if ok:
            break
        # idx is 1-based within the current file
        gidx = start + idx - 1
        # the execution containing that line
        gidx = min(gidx, len(lines) - 1)
        a = gidx
        while a > 0 and boundary not in lines[a]:
            a -= 1
        b = gidx + 1
        while b < len(lines) and boundary not in lines[b]:
            b += 1
        rejected.append({"events": [json.loads(x) for x in lines[a:b]], "unmatched_event": json.loads(lines[gidx]), "position_in_execution": gidx - a})
        if len(rejected) >= max_viol or b >= len(lines):
            break
        start = b
        round_ += 1
        cur = os.path.join(vf.WORK, "tlc", name + "_rest.ndjson")
        open(cur, "w").write("\n".join(lines[b:]) + "\n")
    return len(lines), rejected, states


def conc_passes(tier):
    """(build, mode) passes of the scheduler engines.  The thorough tier repeats the exhaustive and the free-running
    pass on unimock built without std (critical-section + spin-lock: the other MutexIsh, an extra per-instance
    `panicked` lock); threads call through clones, so Conc.tla / Chain.tla apply unchanged."""
    passes = [("std", m) for m in ("dfs", "random", "free", "long")]
    if tier == "thorough":
        vf.build_harness(nostd=True)
        passes += [("no_std+spin-lock", m) for m in ("dfs", "free")]
    return passes


def run_conc(pid, tier, t0, rule, assumptions, plan_key=None):
    import subprocess
    plan = CONC_PROGS[plan_key or pid][tier]
    cov = {"states": 0, "transitions": 0, "traces_validated_against_impl": 0, "samples": [], "instances": [],
           "evaluations": 0, "distinct_nontrivial": 0, "rule": rule, "exhaustive": False}
    # 1. the specification: all interleavings of the split calls satisfy the property-shaped invariants
    for (thr, prog) in plan["mc"]:
        inst = {"module": "MC_Conc", "spec": "MSpec", "constants": {"Thread": "<-" + thr, "CounterImpl": '"fetch_add"', "Prog": "<-" + prog},
                "invariants": CONC_INV, "view": "View"}
        r = vf.run_tlc(inst, "conc_%s_%s" % (pid.lower(), prog), workers=8, timeout=900)
        if r["violated"]:
            raise ToolError("Conc.tla violates %s for %s (model error)" % (r["violated"], prog))
        cov["states"] += r["distinct"]; cov["transitions"] += r["generated"]
        cov["instances"].append({"name": "MC_Conc/" + prog, "mode": "exhaustive interleavings", "tlc_distinct_states": r["distinct"], "tlc_states_generated": r["generated"]})
    # sensitivity: a counter split into load + store must break DistinctPositions in the model
    sens = {"module": "MC_Conc", "spec": "MSpec", "constants": {"Thread": "<-T2", "CounterImpl": '"load_store"', "Prog": "<-P21"}, "invariants": CONC_INV, "view": "View"}
    rs = vf.run_tlc(sens, "conc_sens", workers=4, timeout=600)
    if rs["violated"] not in ("DistinctPositions", "ResponsesArePositions", "VerdictIsSequential"):
        raise ToolError("sensitivity run (load+store counter) did not violate the position invariants: vacuous")
    cov["sensitivity"] = {"CounterImpl=load_store": rs["violated"]}
    # 2. the code: executions under the controlled scheduler / free running, validated against ConcTrace.tla
    all_rej = []
    passes = [(b, m, None) for (b, m) in conc_passes(tier)]
    if plan.get("tuple_dfs"):
        # the single-use response as a composite with two owned leaves in separate slots: "handed to exactly one caller" all the same
        passes += [("std", "tuple_dfs", "tuple"), ("std", "tuple_free", "tuple")]
    for (build, mode_key, once_shape) in passes:
        mode = mode_key.split("_")[-1]
        vh = vf.VH if build == "std" else vf.VH_NOSTD
        progs = plan.get(mode_key)
        if not progs:
            continue
        d = os.path.join(vf.WORK, "conc_%s_%s%s" % (pid.lower(), mode_key, "" if build == "std" else "_nostd"))
        os.makedirs(d, exist_ok=True)
        spec = {"mode": mode, "programs": progs, "max_schedules": 60000 if tier == "thorough" else 6000,
                "runs": plan.get("free_runs" if mode == "free" else "runs", 200), "seed": vf.seed()}
        if once_shape:
            spec["once_shape"] = once_shape
        json.dump(spec, open(os.path.join(d, "spec.json"), "w"))
        tr = os.path.join(d, "trace.ndjson")
        p = subprocess.run([vh, "conc", os.path.join(d, "spec.json"), tr, os.path.join(d, "summary.json")], cwd=vf.VERIF, stderr=subprocess.DEVNULL, timeout=3000)
        if p.returncode != 0:
            raise ToolError("scheduler harness failed in mode %s (exit %s): are the yield hooks present?" % (mode, p.returncode))
        summ = json.load(open(os.path.join(d, "summary.json")))
        if mode in ("dfs", "random") and (not summ.get("hook_installed") or not summ.get("yield_points_hit")):
            raise ToolError("the scheduler saw no yield point: the hooks (cfg unimock_verif) are missing from the tree the harness was built against")
        n_events, rej, st = validate_all(tr, "ctrace_%s_%s%s" % (pid.lower(), mode_key, "" if build == "std" else "_nostd"))
        cov["states"] += st; cov["transitions"] += st
        cov["traces_validated_against_impl"] += summ["executions"]
        cov["evaluations"] += summ["executions"]
        cov["distinct_nontrivial"] += summ["executions"] if mode == "dfs" else 0
        cov["instances"].append({"name": "scheduler/" + mode_key, "unimock_build": build, "executions": summ["executions"], "events": n_events, "yield_points_hit": summ["yield_points_hit"],
                                 "programs": summ["programs"], "rejected": len(rej), "trace_spec_states": st})
        for r in rej:
            r["mode"] = mode + ("" if build == "std" else " (no_std + spin-lock build)")
        all_rej += rej
        if not cov["samples"]:
            cov["samples"].append([json.loads(x) for x in open(tr).read().splitlines()[:12]])
    divs = [{"what": "execution not explainable by Conc.tla: no interleaving of the linearization points yields the observed outcome of %s" % json.dumps(r["unmatched_event"]),
             "step": r["position_in_execution"], "expected": "an outcome reachable in tla/Conc.tla", "observed": r["unmatched_event"],
             "beh": {"kind": "conc-trace", "mode": r["mode"], "events": r["events"]}, "in_scope": True} for r in all_rej]
    cov["checker_cmd"] = "tlc MC_Conc.tla; harness vh conc; tlc ConcTrace.tla (POSTCONDITION Accepted)"
    return finish(pid, tier, LEVEL_MC, cov, assumptions, t0, divs)


CHAIN_PROGS = {"quick": {"dfs": [[["p"], ["p"]], [["p", "p"], ["p", "p"]], [["p"], ["p"], ["p"]], [["l", "l"], ["l"]], [["p", "l"], ["l", "p"]]],
                         "free": [[["p", "p", "p"], ["p", "p", "p"], ["p", "p"], ["p", "p"]], [["l", "p", "l"], ["p", "l", "p"], ["l", "l"], ["l", "p"]]], "free_runs": 300,
                         "long": [[["p"] * 120], [["p"] * 20] * 2], "long_runs": 1,
                         "mc": [("T2", 2, 0), ("T3", 1, 0), ("T2", 1, 2), ("T3", 0, 1)]},
               "thorough": {"dfs": [[["p"], ["p"]], [["p", "p"], ["p", "p"]], [["p"], ["p"], ["p"]], [["p", "p", "p"], ["p", "p", "p"]], [["p", "p"], ["p"], ["p", "p"]],
                                    [["l", "l"], ["l"]], [["p", "l"], ["l", "p"]], [["l"], ["l"], ["l"]], [["l", "p", "l"], ["l", "l"]]],
                            "random": [[["p", "p", "p"], ["p", "p", "p"], ["p", "p", "p"], ["p", "p"]], [["l", "p", "l"], ["p", "l", "p"], ["l", "l", "l"], ["l", "p"]]], "runs": 3000,
                            "free": [[["p", "p", "p"]] * 8, [["l", "p", "l"]] * 8], "free_runs": 5000,
                            "long": [[["p"] * 400], [["p"] * 30] * 8, [["p"] * 100] * 2], "long_runs": 1,     # long chains; 2-8 threads
                            "mc": [("T2", 2, 0), ("T3", 1, 0), ("T3", 2, 0), ("T2", 3, 0), ("T2", 1, 2), ("T3", 0, 1), ("T3", 1, 1), ("T2", 2, 2), ("T3", 0, 2)]}}


def run_chain_conc(pid, tier, t0):
    """C13, concurrent half: make_ref through one shared instance from several threads."""
    import subprocess
    plan = CHAIN_PROGS[tier]
    cov = {"states": 0, "transitions": 0, "traces_validated_against_impl": 0, "samples": [], "instances": [], "evaluations": 0, "distinct_nontrivial": 0, "exhaustive": False,
           "rule": "(a) TLC: every interleaving of the try_insert steps of 2-3 pushers satisfies RefsOwn / NothingLost / DistinctCells / ChainLinear (and the find-then-fill variant violates them); (b) the real value chain under the baton scheduler (yield point before every try_insert): all schedules of small programs, random schedules, free-running threads; every execution (push / got / reread / drop-counter events) validated by ChainTrace.tla"}
    for (thr, pushes, lents) in plan["mc"]:
        inst = {"module": "MC_Chain", "spec": "MSpec", "constants": {"Thread": "<-" + thr, "PushImpl": '"try_insert"', "LentImpl": '"fetch_add"', "MaxCells": 10, "PushesPer": pushes, "LentPer": lents},
                "invariants": ["RefsOwn", "NothingLost", "DistinctCells", "ChainLinear", "LentExact", "LentOwn", "LentFirstOnce"]}
        r = vf.run_tlc(inst, "chain_%s_%d_%d" % (thr, pushes, lents), workers=4, timeout=900)
        if r["violated"]:
            raise ToolError("Chain.tla violates %s (model error)" % r["violated"])
        cov["states"] += r["distinct"]; cov["transitions"] += r["generated"]
        cov["instances"].append({"name": "MC_Chain/%s x %d pushes + %d lent-return calls" % (thr, pushes, lents), "tlc_distinct_states": r["distinct"]})
    sens = {"module": "MC_Chain", "spec": "MSpec", "constants": {"Thread": "<-T2", "PushImpl": '"find_then_fill"', "LentImpl": '"fetch_add"', "MaxCells": 10, "PushesPer": 1, "LentPer": 0},
            "invariants": ["RefsOwn", "NothingLost", "DistinctCells", "ChainLinear"]}
    rs = vf.run_tlc(sens, "chain_sens", workers=2, timeout=300)
    if not rs["violated"]:
        raise ToolError("sensitivity run (find-then-fill push) violates nothing: the chain invariants are vacuous")
    sens2 = {"module": "MC_Chain", "spec": "MSpec", "constants": {"Thread": "<-T2", "PushImpl": '"try_insert"', "LentImpl": '"load_store"', "MaxCells": 10, "PushesPer": 0, "LentPer": 1},
             "invariants": ["LentExact", "LentOwn", "LentFirstOnce"]}
    rs2 = vf.run_tlc(sens2, "chain_sens_lent", workers=2, timeout=300)
    if not rs2["violated"]:
        raise ToolError("sensitivity run (load-then-store position counter of the lending pattern) violates nothing: the lent-return invariants are vacuous")
    cov["sensitivity"] = {"PushImpl=find_then_fill": rs["violated"], "LentImpl=load_store": rs2["violated"]}
    divs = []
    for (build, mode) in conc_passes(tier):
        vh = vf.VH if build == "std" else vf.VH_NOSTD
        progs = plan.get(mode)
        if not progs:
            continue
        d = os.path.join(vf.WORK, "chain_%s%s" % (mode, "" if build == "std" else "_nostd"))
        os.makedirs(d, exist_ok=True)
        spec = {"kind": "chain", "mode": "free" if mode == "long" else mode, "programs": progs, "max_schedules": 60000 if tier == "thorough" else 8000,
                "runs": plan.get({"free": "free_runs", "long": "long_runs"}.get(mode, "runs"), 200), "seed": vf.seed()}
        json.dump(spec, open(os.path.join(d, "spec.json"), "w"))
        tr = os.path.join(d, "trace.ndjson")
        p = subprocess.run([vh, "conc", os.path.join(d, "spec.json"), tr, os.path.join(d, "summary.json")], cwd=vf.VERIF, stderr=subprocess.DEVNULL, timeout=3000)
        if p.returncode != 0:
            # a panic inside make_ref under the mutant kills a worker thread; the harness reports exit 101
            if p.returncode < 0 or p.returncode == 101:
                divs.append({"what": "concurrent make_ref crashed the harness (exit %s)" % p.returncode, "step": 0, "expected": "every push returns a reference to its own value",
                             "observed": "crash", "beh": {"kind": "chain-trace", "mode": mode, "events": []}, "in_scope": True})
                continue
            raise ToolError("scheduler harness failed in chain mode %s (exit %s)" % (mode, p.returncode))
        summ = json.load(open(os.path.join(d, "summary.json")))
        if mode in ("dfs", "random") and (not summ.get("hook_installed") or not summ.get("yield_points_hit")):
            raise ToolError("the scheduler saw no yield point: the hooks (cfg unimock_verif) are missing from the tree the harness was built against")
        n_events, rej, st = validate_all(tr, "chaintrace_%s%s" % (mode, "" if build == "std" else "_nostd"), module="ChainTrace")
        cov["states"] += st; cov["transitions"] += st
        cov["traces_validated_against_impl"] += summ["executions"]; cov["evaluations"] += summ["executions"]
        cov["distinct_nontrivial"] += summ["executions"] if mode == "dfs" else 0
        cov["instances"].append({"name": "scheduler/" + mode, "unimock_build": build, "executions": summ["executions"], "events": n_events, "yield_points_hit": summ["yield_points_hit"], "rejected": len(rej)})
        for r_ in rej:
            divs.append({"what": "concurrent make_ref execution not explainable by Chain.tla at event %s" % json.dumps(r_["unmatched_event"]), "step": r_["position_in_execution"],
                         "expected": "every reference designates its own value; lent values destroyed once, after the instance", "observed": r_["unmatched_event"],
                         "beh": {"kind": "chain-trace", "mode": mode, "events": r_["events"]}, "in_scope": True})
        if not cov["samples"]:
            cov["samples"].append([json.loads(x) for x in open(tr).read().splitlines()[:10]])
    cov["checker_cmd"] = "tlc MC_Chain.tla; harness vh conc (kind=chain); tlc ChainTrace.tla"
    return finish(pid, tier, LEVEL_MC, cov, CONC_ASSUME, t0, divs)


def run_mock_trace(pid, tier, t0, mocks=None):
    """Random larger configurations / longer histories on the real mock, validated by MockTrace.tla."""
    import subprocess
    mocks = mocks or (150 if tier == "quick" else 4000)
    d = os.path.join(vf.WORK, "mocktrace_" + pid.lower())
    os.makedirs(d, exist_ok=True)
    tr = os.path.join(d, "trace.ndjson")
    p = subprocess.run([vf.VH, "drive-mock", tr, "--seed", str(vf.seed() * 131 + int(pid[1:])), "--mocks", str(mocks), "--calls", "40" if tier == "thorough" else "25"],
                       cwd=vf.VERIF, capture_output=True, text=True, timeout=3000)
    if p.returncode != 0:
        raise ToolError("random driver failed: %s" % p.stderr[-500:])
    n_events, rej, st = validate_all(tr, "mocktrace_" + pid.lower(), module="MockTrace", boundary='"ev":"new"')
    divs = [{"what": "observed execution of the real mock is not a behaviour of Mock.tla at event %s" % json.dumps(r_["unmatched_event"])[:400], "step": r_["position_in_execution"],
             "expected": "a step of tla/Mock.tla with exactly this observable (all ten invariants evaluated on every state)", "observed": r_["unmatched_event"],
             "beh": {"kind": "mock-trace", "events": r_["events"]}, "in_scope": True} for r_ in rej]
    cov = {"states": st, "transitions": st, "traces_validated_against_impl": mocks, "evaluations": n_events, "distinct_nontrivial": mocks, "exhaustive": False,
           "samples": [[json.loads(x) for x in open(tr).read().splitlines()[:3]]],
           "rule": "seeded random configurations (1-6 clauses over 7 methods, |Arg| = 4, chains of up to 3 segments of every response kind, stubs with 0-3 patterns, occasional mode conflicts) and histories of up to 40 calls with scripts of nested calls and user panics, run on the real mock; every logged event must be a step of Mock.tla with the logged outcome, user-code log and final verdict (MockTrace.tla, all invariants on every state)",
           "instances": [{"name": "MockTrace", "mocks": mocks, "events": n_events, "rejected": len(rej)}]}
    return finish(pid, tier, LEVEL_MC, cov, COMMON_ASSUME, t0, divs)


APALACHE_INV = {"C02": ("KthResponseArith", "OffByOne",
                        "for chains of up to three segments with ARBITRARY natural counts and every k: the responder the index arithmetic finds for the k-th match (greatest start <= k - 1, last among equal starts) belongs to the segment the statement names (first segment whose cumulative count reaches k; the last one if the chain is open-ended), and every other responder with the same start has length zero"),
                "C04": ("SlotsPartition", "SlotsInclusive",
                        "for up to three ordered clauses with ARBITRARY exact counts and every claimed global index s: the cumulative slot ranges give s exactly one owner, the clause holding position s of the flattened expected sequence, and no owner once the sequence is exhausted")}


def run_apalache_arith(pid, tier, t0):
    """Unbounded-integer part: Apalache (SMT) decides the index arithmetic of tla/apalache/BuilderArith.tla for all naturals;
    a deliberately wrong variant must be refuted (otherwise the encoding is vacuous)."""
    import subprocess, shutil
    inv, sens, rule = APALACHE_INV[pid]
    if shutil.which("apalache-mc") is None:
        raise ToolError("apalache-mc is not on PATH")
    out = os.path.join(vf.WORK, "apalache_" + pid.lower())
    res = {}
    for name in (inv, sens):
        p = subprocess.run(["timeout", "900", "apalache-mc", "check", "--length=0", "--inv=" + name, "--out-dir=" + out, "--write-intermediate=false", "BuilderArith.tla"],
                           cwd=os.path.join(vf.TLA, "apalache"), capture_output=True, text=True)
        txt = p.stdout + p.stderr
        res[name] = "holds" if "The outcome is: NoError" in txt else "refuted" if "The outcome is: Error" in txt else "unknown"
        if res[name] == "unknown":
            log(txt[-1500:])
            raise ToolError("apalache-mc gave no verdict on %s" % name)
    if res[sens] != "refuted":
        raise ToolError("Apalache did not refute the deliberately wrong variant %s: the encoding is vacuous" % sens)
    divs = []
    if res[inv] != "holds":
        # the specification's own arithmetic is wrong: a model error, not a verdict about the code
        raise ToolError("Apalache refutes %s: the builder / assembler arithmetic of the specification is wrong" % inv)
    cov = {"states": 1, "transitions": 1, "traces_validated_against_impl": 0, "evaluations": 2, "distinct_nontrivial": 2, "exhaustive": True, "samples": [res],
           "rule": rule + " (Apalache, unbounded integers, everything chosen in Init; bound to the code only through the bounded replay of the same definitions)",
           "instances": [{"name": "apalache/BuilderArith.tla", "invariant": inv, "verdict": res[inv], "sensitivity": {sens: res[sens]}}]}
    return finish(pid, tier, LEVEL_MC, cov, ["symbolic part: chains / clause lists of length <= 3; counts, k and the claimed index range over all naturals"], t0, divs)



def shapes_inst(fam, maxlen):
    return {"module": "MC_Shapes", "spec": "Spec", "constants": {"TypeFam": "<-" + fam, "MaxLen": maxlen, "EmitOn": True},
            "invariants": ["TwoDefinitionsAgree", "Emit"]}


def run_c17_cases(tier, tag):
    """TLC enumerates (type, path, value) cases of Shapes.tla; a generated program observes the real
    library. Returns (tlc stats, expectations, divergences, n_cases)."""
    import gen, gen_c17
    fam, maxlen = ("TypesQ", 2) if tier == "quick" else ("TypesT", 3)
    r, cases = gen.tlc_cases(shapes_inst(fam, maxlen), "shapes_" + tag)
    if not cases:
        raise ToolError("Shapes.tla emitted no cases")
    main_rs, exp = gen_c17.render(cases)
    name = "gen_" + tag
    gen.write_crate(name, main_rs)
    obs, info = gen.build_and_run(name)
    if obs is None:
        errs, _ = gen.check_errors(name)
        log(info[-3000:] if isinstance(info, str) else info)
        raise ToolError("generated program for %s does not build/run against the tree (%d compile errors; first: %s)" % (tag, len(errs), errs[:1]))
    divs = gen_c17.compare(exp, obs)
    return r, exp, divs, len(cases)


def gen_report(pid, divs, exp_key="exp"):
    out = []
    for d in divs:
        out.append({"what": d["what"], "step": 0, "expected": d["expected"], "observed": d["observed"],
                    "beh": {"kind": "generated-case", "case": d.get("exp")}, "in_scope": True})
    return report(pid, out, len(out))


def run_c17(pid, tier, t0):
    r, exp, divs, n = run_c17_cases(tier, pid.lower())
    if pid == "C12":
        # the composite half of C12 only concerns owned leaves: keep the divergences about refusal / duplication
        pass
    divs = [{"what": d["what"], "step": 0, "expected": d["expected"], "observed": d["observed"],
             "beh": {"kind": "generated-case", "case": d.get("exp")}, "in_scope": True} for d in divs]
    types = sorted({e["rust_type"] for e in exp.values()})
    cov = {"evaluations": n, "distinct_nontrivial": n, "programs": len(types), "states": r["distinct"], "transitions": r["generated"],
           "traces_validated_against_impl": n,
           "rule": "TLC enumerates every (return type, builder path, value) of the bounded grammar in tla/Shapes.tla (checking Store/Output against the statement-level outcome) and prints each case; one #[unimock] trait per type and one scenario per case are generated, built against /repo and run: call three times, compare rendering, refusal and address stability of borrowed leaves; distinct = distinct cases",
           "samples": [{"type": e["rust_type"], "returns": e["literal"], "path": e["doc"]["path"], "first": e["show"], "second": e["second"]} for e in list(exp.values())[:4]],
           "return_types": types, "exhaustive": True}
    return finish(pid, tier, "exploration", cov, ["the grammar of return types is the measured set of DESIGN Appendix G; types outside it are not covered",
                  "expected renderings are derived structurally from the TLC-emitted value; refusal/availability and clone generation come from tla/Shapes.tla"], t0, divs)


def asm_inst(kind, tier):
    return {"module": "MC_Assemble", "spec": "Spec",
            "constants": {"CaseKind": '"%s"' % kind, "MaxDepth": 2, "MaxKids": 3 if tier == "quick" else 4, "MaxSeq": 3 if tier == "quick" else 4, "EmitOn": True},
            "invariants": ["ModelOK", "Emit"]}


def run_c14(pid, tier, t0, only_chains=False):
    import gen, gen_c14, random
    rng = random.Random(vf.seed())
    states = 0
    divs = []
    n_cases = 0
    samples = []
    detail = {}
    if not only_chains:
        r1, trees = gen.tlc_cases(asm_inst("tree", tier), "asm_tree_" + pid.lower())
        r2, seqs = gen.tlc_cases(asm_inst("seq", tier), "asm_seq_" + pid.lower())
        states += r1["distinct"] + r2["distinct"]
        if tier == "quick":
            # every flat arity and every nesting shape up to depth 1, a seeded sample of the deeper ones
            def depth(t):
                return 0 if "leaf" in t or not t["kids"] else 1 + max(depth(k) for k in t["kids"])
            deep = [t for t in trees if depth(t["tree"]) >= 2]
            trees = [t for t in trees if depth(t["tree"]) < 2] + rng.sample(deep, min(250, len(deep)))
        if tier != "quick":
            # keep the generated program compilable: every tree up to depth 1, a seeded sample of the deeper ones, every clause
            # list of length <= 3 and every long tuple, a seeded sample of the length-4 lists
            def depth(t):
                return 0 if "leaf" in t or not t["kids"] else 1 + max(depth(k) for k in t["kids"])
            deep = [t for t in trees if depth(t["tree"]) >= 2]
            trees = [t for t in trees if depth(t["tree"]) < 2] + rng.sample(deep, min(1000, len(deep)))
            four = [c for c in seqs if len(c["leaves"]) == 4]
            seqs = [c for c in seqs if len(c["leaves"]) != 4] + rng.sample(four, min(3000, len(four)))
        main_rs, exp = gen_c14.render_run(trees, seqs)
        gen.write_crate("gen_c14", main_rs)
        obs, info = gen.build_and_run("gen_c14")
        if obs is None:
            log(str(info)[-3000:])
            raise ToolError("generated C14 program does not build/run against the tree")
        d = gen_c14.compare_run(exp, obs)
        divs += [{"what": x["what"], "step": 0, "expected": x["expected"], "observed": x["observed"], "beh": {"kind": "generated-case", "case": x["exp"]}, "in_scope": True} for x in d]
        n_cases += len(exp)
        detail["trees"] = len(trees); detail["clause_lists"] = len(seqs)
        detail["arities_covered"] = sorted({len(t["tree"]["kids"]) for t in trees if "kids" in t["tree"]})
        samples += [{"tree": exp["t5"]["src"]}] if "t5" in exp else []
        samples += [{"clause_list": exp["s7"]["src"], "expected": exp["s7"]["new"]}] if "s7" in exp else []
    # compile-fail chains
    r3, chains = gen.tlc_cases(asm_inst("chain", tier), "asm_chain_" + pid.lower())
    states += r3["distinct"]
    src, spans = gen_c14.render_chains(chains)
    gen.write_crate("gen_c14c", "fn main() {}\n", extra_files={"src/bin/chains.rs": src})
    errs, rc = gen.check_errors("gen_c14c", "chains")
    bad_lines = set()
    for (f, line, code, msg) in errs:
        if f and f.endswith("chains.rs"):
            bad_lines.add(line)
        elif f is None or not f.endswith("chains.rs"):
            pass
    if rc != 0 and not bad_lines:
        raise ToolError("cargo check of the chain file failed without located errors: %s" % errs[:2])
    accepted_but_must_fail = 0
    for (a, b, c) in spans:
        rejected = any(a <= l <= b for l in bad_lines)
        if c["ok"] and rejected:
            raise ToolError("a builder chain the model accepts is rejected by rustc (model/grammar error): %s" % c["src"])
        if not c["ok"] and not rejected:
            accepted_but_must_fail += 1
            divs.append({"what": "a builder chain that must not type-check is accepted by the compiler", "step": 0,
                         "expected": {"rejected_because": [k for k, v in c["why"].items() if v]}, "observed": "compiles",
                         "beh": {"kind": "generated-case", "case": c}, "in_scope": True})
    n_cases += len(spans)
    detail["chains"] = len(spans); detail["chains_must_fail"] = len([1 for s_ in spans if not s_[2]["ok"]])
    samples += [{"chain": spans[3][2]["src"], "must_compile": spans[3][2]["ok"]}]
    cov = {"evaluations": n_cases, "distinct_nontrivial": n_cases, "programs": 2, "states": states, "transitions": states,
           "traces_validated_against_impl": n_cases, "samples": samples, "detail": detail, "exhaustive": tier != "quick",
           "rule": "TLC (MC_Assemble.tla) enumerates clause trees (every flat arity 2..16, nested tuples and unit clauses up to depth 2), flat clause lists with mode conflicts / empty stubs at every position, and builder chains with the verdict of the type-state automaton; trees and lists are rendered as STATIC tuples and run (ordered clauses returning their own index make any transposition, drop or duplicate fail), chains are type-checked by one cargo check run and located by line"}
    return finish(pid, tier, "exploration", cov, ["ordered clauses are used as the order detector: a mock of next_call clauses 1..n accepts only the declared order",
                  "a chain the model accepts but rustc rejects is a tool error (exit 2), not a violation"], t0, divs)


def matching_inst(fam, splice="paren"):
    return {"module": "MC_Matching", "spec": "Spec", "constants": {"GuardSplice": '"%s"' % splice, "Fam": '"%s"' % fam, "EmitOn": True},
            "invariants": ["MacroIsMatch", "Emit"]}


def run_matching(pid, tier, t0, want="C06"):
    """C06: accept bits; C19 (want='C19'): mismatch positions of the same generated program."""
    import gen, gen_c06
    fam = "Q" if tier == "quick" else "T"
    r, cases = gen.tlc_cases(matching_inst(fam), "matching_" + pid.lower(), timeout=1800)
    if not cases:
        raise ToolError("Matching.tla emitted no cases")
    main_rs, exp = gen_c06.render(cases)
    name = "gen_" + pid.lower() + "m"
    gen.write_crate(name, main_rs)
    obs, info = gen.build_and_run(name, timeout=3000)
    dropped = 0
    if obs is None:
        # inputs that stopped compiling are outside C06's statement: drop them (at most a third) and judge the rest
        errs, _ = gen.check_errors(name)
        bad = {l_ for (f, l_, c_, m_) in errs if f and f.endswith("main.rs")}
        keep = [e["src_case"] for e in exp.values() if not any(e["lines"][0] <= l_ <= e["lines"][1] for l_ in bad)]
        dropped = len(cases) - len(keep)
        if not errs or dropped == 0 or dropped * 3 > len(cases):
            log(str(info)[-3000:])
            raise ToolError("generated matching! program does not build/run (%d compile errors over %d of %d inputs; first: %s)" % (len(errs), dropped, len(cases), errs[:1]))
        main_rs, exp = gen_c06.render(keep)
        gen.write_crate(name, main_rs)
        obs, info = gen.build_and_run(name, timeout=3000)
        if obs is None:
            raise ToolError("generated matching! program does not build even without the inputs that carry errors")
    d06, d19, model_err = gen_c06.compare(exp, obs)
    if model_err:
        raise ToolError("Matching.tla disagrees with rustc's own match on %d inputs (modelling error), e.g. %s" % (len(model_err), model_err[0]))
    d = d06 if want == "C06" else d19
    divs = [{"what": x["what"], "step": 0, "expected": x["expected"], "observed": x["observed"], "beh": {"kind": "generated-case", "case": x["exp"]}, "in_scope": True} for x in d]
    ntuples = sum(len(e["bits"]) for e in exp.values())
    cov = {"evaluations": ntuples, "distinct_nontrivial": len(exp), "programs": len(exp), "states": r["distinct"], "transitions": r["generated"],
           "traces_validated_against_impl": len(exp), "exhaustive": True, "inputs_dropped_because_they_no_longer_compile": dropped,
           "samples": [{"matching": e["matching"], "accept_bits_over_domain": e["bits"]} for e in list(exp.values())[5:9]],
           "rule": "TLC enumerates the inputs of the bounded grammar of tla/Matching.tla (per-type patterns incl. ranges, @, or-patterns, Option/enum/struct-variant, slices with rest, string literals, eq!/ne!, 1-2 top-level alternatives, guards over bindings) and computes accept/reject for EVERY argument tuple of the finite domain (MacroIsMatch: generated closure = statement); each input is rendered as matching!(..) installed as unordered clause (diagnostics off) and ordered clause (diagnostics on) and as a plain Rust match (rustc as second oracle); three-way agreement on every tuple"}
    if want == "C06":
        # the model must notice the historical defect (raw splice of an `a || b` guard)
        rs = vf.run_tlc({"module": "MC_Matching", "spec": "Spec", "constants": {"GuardSplice": '"raw"', "Fam": '"Q"', "EmitOn": False}, "invariants": ["MacroIsMatch"]},
                        "matching_sens", workers=4, timeout=600)
        if rs["violated"] != "MacroIsMatch":
            raise ToolError("sensitivity run (raw guard splice) did not violate MacroIsMatch")
        cov["sensitivity"] = {"GuardSplice=raw": rs["violated"]}
    return finish(pid, tier, "exploration", cov, ["guards are menu predicates over bound integers; argument domains are 4-5 values per type",
                  "a disagreement between the model and rustc's own match is a modelling error (exit 2), a disagreement of matching! with both is the violation",
                  "inputs the macro rejects at compile time (e.g. three parenthesised top-level alternatives) are outside the statement"], t0, divs)


def run_render(pid, tier, t0):
    import gen, gen_c19
    fam = "Q" if tier == "quick" else "T"
    inst = {"module": "MC_Render", "spec": "Spec", "constants": {"Fam": '"%s"' % fam, "EmitOn": True}, "invariants": ["Emit"]}
    r, cases = gen.tlc_cases(inst, "render_" + pid.lower())
    main_rs, exp = gen_c19.render(cases)
    gen.write_crate("gen_c19r", main_rs)
    obs, info = gen.build_and_run("gen_c19r", timeout=3000)
    if obs is None:
        errs, _ = gen.check_errors("gen_c19r")
        log(str(info)[-3000:])
        raise ToolError("generated message program does not build/run (%d compile errors; first: %s)" % (len(errs), errs[:1]))
    d = gen_c19.compare(exp, obs)
    divs = [{"what": x["what"], "step": 0, "expected": x["expected"], "observed": x["observed"], "beh": {"kind": "generated-case", "case": x["exp"]}, "in_scope": True} for x in d]
    cov = {"evaluations": len(exp), "distinct_nontrivial": len(exp), "programs": len(exp), "states": r["distinct"], "transitions": r["generated"],
           "traces_validated_against_impl": len(exp), "exhaustive": True,
           "samples": [{"signature": e["signature"], "error": e["err"], "expected_call": e["call"], "expected_pattern": e["pattern"]} for e in list(exp.values())[40:44]],
           "rule": "TLC enumerates method shapes (arity 0-3 over 13 argument kinds: by value, &, &&, &mut, &str, String, slices, Vec, non-Debug, generic, Option<&str>, Debug struct) x the nine mock-induced error kinds and computes the expected call rendering (tla/Shapes.tla RenderArg/CallText), the pattern text and the rejecting positions; one trait and one scenario per case are generated with pairwise-distinct argument values; the panic message must start with Trait::method(args) (or name Trait::method for the two implementation-missing errors) and contain Trait::method(src) at file:line of the matching! invocation"}
    return finish(pid, tier, "exploration", cov, ["wording between the structural parts and the diff rendering are out of scope",
                  "patterns in these scenarios are literals / wildcards (other patterns against reference arguments do not compile: autoref ambiguity)"], t0, divs)


def run_forward(pid, tier, t0):
    import gen, gen_c05
    fam = "Q" if tier == "quick" else "T"
    inst = {"module": "MC_Forward", "spec": "Spec", "constants": {"Fam": '"%s"' % fam, "EmitOn": True}, "invariants": ["ViewsAgree", "Emit"]}
    r, cases = gen.tlc_cases(inst, "forward_" + pid.lower(), timeout=1800)
    total = len(cases)
    if tier == "quick":
        cases = gen_c05.sample(cases, 220, vf.seed())
    else:
        cases = gen_c05.sample(cases, 2500, vf.seed())
    divs = []
    n = 0
    samples = []
    rejected_shapes = []
    # several crates keep single compilation units small
    chunk = 450
    for k in range(0, len(cases), chunk):
        part = cases[k:k + chunk]
        name = "gen_c05_%d" % (k // chunk)
        for attempt in range(4):
            main_rs, exp = gen_c05.render(part)
            gen.write_crate(name, main_rs)
            obs, info = gen.build_and_run(name, timeout=3000)
            if obs is not None:
                break
            errs, _ = gen.check_errors(name)
            log(str(info)[-2000:])
            # Shapes of the measured grammar that THIS tree's macro does not accept: the statement speaks about the
            # shapes the attribute accepts, so they are set aside (listed in the evidence) and the rest is decided.
            # Anything else (errors outside a case, most cases failing) is a tool error.
            bad, outside = gen_c05.cases_of_errors(main_rs, errs)
            if attempt == 3 or not errs or outside or not bad or len(bad) * 3 > len(part):
                raise ToolError("generated forwarding program does not build/run (%d compile errors; first: %s)" % (len(errs), errs[:2]))
            for b in sorted(bad):
                rejected_shapes.append({"signature": exp["f%d" % b]["sig"], "error": [e[2] for e in errs if e[1]][:1]})
            print("NOTE: %d generated trait shape(s) of the measured grammar are not accepted by this tree's macro; set aside: %s" % (len(bad), [exp["f%d" % b]["sig"] for b in sorted(bad)][:3]))
            part = [c for i, c in enumerate(part) if i not in bad]
        d = gen_c05.compare(exp, obs)
        divs += [{"what": x["what"], "step": 0, "expected": x["expected"], "observed": x["observed"], "beh": {"kind": "generated-case", "case": x["exp"]}, "in_scope": True} for x in d]
        n += len(exp)
        samples += [{"signature": e["sig"], "api": e["shape"]["api"], "matcher_sees": e["matcher"], "answer_gets": e["answer"], "after": e["after"]} for e in list(exp.values())[:3]]
    cov = {"evaluations": n, "distinct_nontrivial": n, "programs": n, "states": r["distinct"], "transitions": r["generated"], "traces_validated_against_impl": n,
           "valid_shapes_in_grammar": total, "exhaustive": n == total, "samples": samples[:4], "shapes_not_accepted_by_this_tree": rejected_shapes,
           "rule": "TLC enumerates the valid shapes of tla/Shapes.tla (receiver x parameter list (arity 0-5 over 12 kinds) x return kind x {sync, async fn, -> impl Future} x {module, flattened, hidden api} x method generics) with the expected matcher view, answer view, &mut write-back and return rendering (Forward); quick = a seeded subset covering all pairs of dimensions, thorough = up to 2500 shapes; each shape becomes one trait with pairwise-distinct argument values, a recording matcher guard and a recording answer (hidden api: the registered real function); async shapes additionally check nothing is evaluated before the first poll or when the future is dropped unpolled"}
    return finish(pid, tier, "exploration", cov, ["shapes outside the grammar (impl Trait parameters, associated futures, exotic lifetimes) are not covered",
                  "a shape the model calls valid that does not compile is a tool error (exit 2)"], t0, divs)


def run_fallback_shapes(pid, tier, t0):
    """C07 over the receiver kinds of the generated impl: tla/Shapes.tla FallbackExpected on generated traits."""
    import gen, gen_c07
    inst = {"module": "MC_Fallback", "spec": "Spec", "constants": {"EmitOn": True}, "invariants": ["NoFabricationShape", "Emit"]}
    r, cases = gen.tlc_cases(inst, "fallback_" + pid.lower())
    main_rs, exp = gen_c07.render(cases)
    gen.write_crate("gen_c07", main_rs)
    obs, info = gen.build_and_run("gen_c07", timeout=3000)
    if obs is None:
        log(str(info)[-2000:])
        raise ToolError("generated fall-back program does not build/run against the tree")
    d = gen_c07.compare(exp, obs)
    divs = [{"what": x["what"], "step": 0, "expected": x["expected"], "observed": x["observed"], "beh": {"kind": "generated-case", "case": x["exp"]}, "in_scope": True} for x in d]
    n = len(exp)
    cov = {"evaluations": n, "distinct_nontrivial": n, "programs": 1, "states": r["distinct"], "transitions": r["generated"], "traces_validated_against_impl": n, "exhaustive": True,
           "samples": [{"method": e["sig"], "mock": e["mock"], "call_arg": e["call_arg"], "expected": e["exp"]} for e in list(exp.values())[40:42]],
           "rule": "TLC enumerates receiver kind (&self, &mut self, by value, Rc, Arc, Pin) x default body x registered real function x strict/partial x {unmentioned, mentioned-but-unmatched, matched}; every cell is a generated trait, built and run; the outcome must be the clause's value, the default body's, the real function's (called once) or a panic of the stated kind naming the method"}
    return finish(pid, tier, LEVEL_MC, cov, ["one method of one signature per cell; the default body and the real function return distinct constants"], t0, divs)


def run_unmock_shapes(pid, tier, t0):
    import gen, gen_c16, random
    fam = "Q" if tier == "quick" else "T"
    inst = {"module": "MC_Unmock", "spec": "Spec", "constants": {"Fam": '"%s"' % fam, "EmitOn": True}, "invariants": ["Emit"]}
    r, cases = gen.tlc_cases(inst, "unmock_" + pid.lower(), timeout=1800)
    total = len(cases)
    rng = random.Random(vf.seed())
    dropped = 0
    if tier == "quick" and len(cases) > 160:
        cases = rng.sample(cases, 160)
    elif len(cases) > 3000:
        cases = rng.sample(cases, 3000)
    divs = []
    n = 0
    samples = []
    for k in range(0, len(cases), 500):
        part = cases[k:k + 500]
        main_rs, exp = gen_c16.render(part)
        name = "gen_c16_%d" % (k // 500)
        gen.write_crate(name, main_rs)
        obs, info = gen.build_and_run(name, timeout=3000)
        if obs is None:
            # cases that stopped compiling are not violations of C16: drop them (at most a third) and go on with the rest
            errs, _ = gen.check_errors(name)
            bad = {l for (f, l, c_, m_) in errs if f and f.endswith("main.rs")}
            keep = [e["src_case"] for e in exp.values() if not any(e["lines"][0] <= l <= e["lines"][1] for l in bad)]
            dropped_n = len(part) - len(keep)
            if not errs or dropped_n == 0 or dropped_n * 3 > len(part):
                log(str(info)[-2000:])
                raise ToolError("generated unmock program does not build/run (%d compile errors over %d of %d cases; first: %s)" % (len(errs), dropped_n, len(part), errs[:2]))
            dropped += dropped_n
            main_rs, exp = gen_c16.render(keep)
            gen.write_crate(name, main_rs)
            obs, info = gen.build_and_run(name, timeout=3000)
            if obs is None:
                raise ToolError("generated unmock program does not build even without the cases that carry errors")
        d = gen_c16.compare(exp, obs)
        divs += [{"what": x["what"], "step": 0, "expected": x["expected"], "observed": x["observed"], "beh": {"kind": "generated-case", "case": x["exp"]}, "in_scope": True} for x in d]
        n += len(exp)
        samples += [{"attr": e["attr"], "method": e["sig"], "mode": e["shape"]["mode"], "expected_real_function_log": e["a"], "expected": e["k"]} for e in list(exp.values())[:3]]
    cov = {"evaluations": n, "distinct_nontrivial": n, "programs": n, "states": r["distinct"], "transitions": r["generated"], "traces_validated_against_impl": n,
           "shapes_in_grammar": total, "exhaustive": n == total, "samples": samples[:4], "cases_dropped_because_they_no_longer_compile": dropped,
           "rule": "TLC enumerates traits with 1-3 methods of one signature, an optional non-mockable associated function first, every assignment of unmock_with entries (_, path, path(b, a)), the target method, receiver (&self, &mut self, Pin, by value), sync/async, partial fall-through vs applies_unmocked(), with or without a nested call back into the mock, and the expected invocation (tla/Shapes.tla UnmockExpected); each case is generated, built and run; the real functions record who ran and what they received"}
    return finish(pid, tier, "exploration", cov, ["all methods of a generated trait share one signature so that a positional shift in the list compiles and becomes visible at run time"], t0, divs)


def run_delegate_shapes(pid, tier, t0):
    import gen, gen_c15
    inst = {"module": "MC_Delegate", "spec": "Spec", "constants": {"EmitOn": True}, "invariants": ["Emit"]}
    r, cases = gen.tlc_cases(inst, "delegate_" + pid.lower())
    main_rs, exp = gen_c15.render(cases)
    gen.write_crate("gen_c15", main_rs)
    obs, info = gen.build_and_run("gen_c15", timeout=3000)
    if obs is None:
        errs, _ = gen.check_errors("gen_c15")
        log(str(info)[-2000:])
        raise ToolError("generated delegation program does not build/run (%d compile errors; first: %s)" % (len(errs), errs[:2]))
    d = gen_c15.compare(exp, obs)
    divs = [{"what": x["what"], "step": 0, "expected": x["expected"], "observed": x["observed"], "beh": {"kind": "generated-case", "case": x["exp"]}, "in_scope": True} for x in d]
    n = len(exp)
    cov = {"evaluations": n, "distinct_nontrivial": n, "programs": n, "states": r["distinct"], "transitions": r["generated"], "traces_validated_against_impl": n, "exhaustive": True,
           "samples": [{"default_method": e["sig"], "setup": e["setup"], "expected_result": e["ret"]} for e in list(exp.values())[100:103]],
           "rule": "TLC enumerates receiver kind (&self, &mut self, by value, Rc, Arc, Pin) x number of required-method calls in the default body (0-3) x implicit vs applies_default_impl() x preceding direct calls x ordered vs counted unordered required patterns x sole vs shared Rc/Arc owner, with the expected result, body arguments and a silent final verification (tla/Shapes.tla DelegateExpected); every case is generated, built and run"}
    return finish(pid, tier, "exploration", cov, ["the default body is the generated trait's own; the silent final verification is the witness that required calls were counted on the same mock state"], t0, divs)


def run_bundled(pid, tier, t0):
    import gen, subprocess
    inst = {"module": "MC_Mirrors", "spec": "Spec", "constants": {"EmitOn": True}, "invariants": ["BasisIsRequired", "Emit"]}
    r, table = gen.tlc_cases(inst, "mirrors_" + pid.lower())
    main_rs = open(os.path.join(gen.GEN, "c20_main.rs")).read()
    name = "gen_c20"
    gen.write_crate(name, main_rs, features=("mock-core", "mock-std", "mock-embedded-hal-1", "mock-tokio-1", "mock-futures-io-0-3"))
    p = gen.cargo(name, ["build", "--offline"], timeout=3000)
    if p.returncode != 0:
        log(p.stderr[-3000:])
        raise ToolError("the C20 program does not build against the tree")
    env = dict(os.environ); env["C20_RUNS"] = "150" if tier == "quick" else "20000"; env["VERIF_SEED"] = str(vf.seed())
    exe = os.path.join(vf.WORK, "target", "debug", name)
    q = subprocess.run([exe], capture_output=True, text=True, env=env, timeout=3000)
    if q.returncode != 0:
        raise ToolError("the C20 program failed: %s" % q.stderr[-1000:])
    obs = [json.loads(l) for l in q.stdout.splitlines() if l.startswith("{")]
    divs = []
    diff_by_method = {}
    wired = set()
    for o in obs:
        if o["kind"] == "diff":
            meth = o["case"].split("#")[0]
            diff_by_method[meth] = diff_by_method.get(meth, 0) + 1
            if not o["equal"]:
                divs.append({"what": "a Unimock replaying a script through upstream %s differs from a plain struct implementing the trait with that script" % meth,
                             "step": 0, "expected": {"plain_struct": o["plain"]}, "observed": {"unimock": o["mock"]}, "beh": {"kind": "generated-case", "case": o["case"]}, "in_scope": True})
        else:
            wired.add(o["case"])
            if not o["ok"]:
                divs.append({"what": "mirrored method is not served by its own mock entry point: %s" % o["case"], "step": 0, "expected": "answered by the configured clause",
                             "observed": o["detail"], "beh": {"kind": "generated-case", "case": o["case"]}, "in_scope": True})
    # every method of the model's table must have been exercised: required -> wiring case, provided -> a differential run (or its default)
    covered_prov = {"Hasher::write_ints": {"write_u8", "write_u16", "write_u32", "write_u64", "write_u128", "write_usize", "write_i8", "write_i16", "write_i32", "write_i64", "write_i128", "write_isize"},
                    "Seek::rewind+stream_position": {"rewind", "stream_position"}, "DelayNs::delay_us+delay_ms": {"delay_us", "delay_ms"}}
    missing = []
    for row in table:
        t, m, kind = row["trait"], row["method"], row["kind"]
        if kind == "req":
            if "wire:%s::%s" % (t, m) not in wired:
                missing.append("%s::%s (required, no wiring case)" % (t, m))
        else:
            hit = ("%s::%s" % (t, m)) in diff_by_method or any(k.startswith(t + "::") and m in v for k, v in covered_prov.items() if k in diff_by_method) \
                  or ("wire:%s::%s(default)" % (t, m)) in wired
            if not hit:
                missing.append("%s::%s (provided, no differential run)" % (t, m))
    if missing:
        raise ToolError("methods of the model's mirror table not exercised by the program: %s" % missing)
    n = len(obs)
    cov = {"evaluations": n, "distinct_nontrivial": n, "programs": 1, "states": r["distinct"], "transitions": r["generated"], "traces_validated_against_impl": n,
           "exhaustive": False, "differential_runs_per_method": diff_by_method, "wiring_cases": sorted(wired),
           "samples": [o for o in obs if o["kind"] == "diff"][:2],
           "rule": "tla/Shapes.tla Mirrors lists every method of the mirrored core/std traits (and embedded-hal DelayNs) as required or provided with the required methods its upstream body rests on (BasisIsRequired checked by TLC); the driver requires one wiring case per required method and differential runs per provided method: seeded random scripts (chunk sizes, short reads/writes, zero, Interrupted, errors, payloads, line/delimiter data) are replayed by a Unimock and by a plain struct through write_all, write_vectored, read_exact, read_to_end, read_to_string, read_vectored, read_line, read_until, Hasher::write_*, Seek::rewind/stream_position, DelayNs::delay_us/ms and format! via Display; results, buffers and the sequence of required-method calls must be equal"}
    return finish(pid, tier, "exploration", cov, ["the plain struct is the statement's own oracle; upstream provided bodies are an environment, not modelled",
                  "tokio / futures-io: every required method has a wiring case, the vectored polls are compared with plain structs; is_write_vectored is only compared as part of that run"], t0, divs)


COMMON_ASSUME = [
    "argument domain is a small finite set; matchers are total and side-effect free",
    "expectations are produced by TLC from tla/Mock.tla; the harness only compares observables (return ids, panic classes, verification lines, drop counters)",
    "bounds as listed per instance; nothing is claimed beyond them",
]

RULES = {
    "C11": "configurations of ordered / unordered / single-use patterns with exact expectations x histories in which matchers panic (an argument value on which every matcher panics) and answers panic, all caught; the final verification must reflect exactly the calls that matched",
    "C01": "TLC enumerates every configuration (<= MaxLeaves leaves from LeafFam: every predicate subset of Arg, exhausted/over-matched chains, stub and single-clause forms, both strict and partial) x every call history up to MaxCalls; each complete behaviour is replayed on the real mock; non-trivial = contains at least one call",
    "C02": "every well-typed quantifier chain of the family (segments x response kinds x once/n_times/at_least/open) x forms x histories of matching and non-matching calls up to beyond the chain's end; replayed on original and routed over clones",
    "C03": "clause sets with exact / at-least / trailing-then expectations x histories bringing counts below, at and above every bound; final verification through drop, verify() and report() in rotation",
    "C04": "ordered clause sequences over several methods with counts 0..3 and response chains inside a slot range, interleaved with an unordered bystander; from every accepted prefix every possible next call",
    "C18": "configurations x admissible clause reorderings (chosen by TLC, Assemble.tla Admissible) x histories; every behaviour is replayed in the reordered listing, a second time with calls routed over clones, and a third time interleaved step by step on two independent mocks built from the same clauses; generic instantiations g<u8>/g<u16> are distinct methods of the model",
    "C07": "{strict, partial} x {unmentioned, mentioned-unmatched, matched} x {default, unmock, both, neither} x {any, ord} x Arg x position in short histories",
}


LIFE_ASSUME = [
    "the mock under test is fixed (one exactly-once pattern, one provided method, a partial mock); counts enter only through 'some expectation unmet'",
    "two OS threads (creator and one other); all operations on an instance run on the thread the model says it lives on",
    "a double panic is observed as death of the harness process; the aborted behaviour is identified through a progress file",
]
LIFE_RULES = {
    "C11": "configurations of ordered / unordered / single-use patterns with exact expectations x histories in which matchers panic (an argument value on which every matcher panics) and answers panic, all caught; the final verification must reflect exactly the calls that matched",
    "C09": "all sequences of lifecycle operations up to MaxSteps over original + clones + helper clones + instances lent via make_ref, on two threads: clone, delegate, lend, move, hit, err, drop, verify(), report(), no_verify_in_drop(); every complete sequence is executed on the real library and each operation's outcome compared",
    "C11": "all sequences up to MaxSteps that include panics of six origins (user code, mock-induced error, real function, default body, matcher, return-value Clone) on either thread while an instance (original or clone; plain, Box, Rc, Arc) is dropped by the unwinding or not; live clones, foreign threads, unmet expectations included; an abort of the harness process is the violation",
    "C13": "all sequences up to MaxSteps of make_ref epochs (1-2 values of three types each, all earlier references re-read after every push), make_mut, lending of clones, delegation, drop/verify; destroyed values compared with drop counters after every operation",
}


CONC_ASSUME = [
    "sequentially consistent interleavings at the granularity of the runtime's atomic operations and lock acquisitions (hook H2 yield points); weak-memory effects are outside the technique",
    "the mock under test is the fixed one of tla/Conc.tla; outcomes observed by callers and the final verify() verdict are the only observables",
    "free-running stress is one-sided: an unexplainable execution is real, absence proves nothing",
]
CONC_RULES = {
    "C11": "configurations of ordered / unordered / single-use patterns with exact expectations x histories in which matchers panic (an argument value on which every matcher panics) and answers panic, all caught; the final verification must reflect exactly the calls that matched",
    "C10": "(a) TLC: every interleaving of the split calls of fixed thread programs satisfies DistinctPositions / ResponsesArePositions / VerdictIsSequential (and a split counter violates them); (b) the real library under a baton scheduler: ALL schedules at the real yield points of each small program (depth-first, stateless), then seeded random schedules of larger programs, then free-running threads; every execution's begin/end events and verify() verdict must be accepted by ConcTrace.tla",
}


CONC_RULES["C12"] = "single-use value raced by 2-4 threads: every schedule of small programs at the real yield points, random schedules and free-running threads, validated against ConcTrace.tla (SingleDelivery: exactly one requester gets the value, the others panic and are recorded)"
CONC_RULES["C08"] = "several threads erring concurrently (unanswered calls, ordered calls past the end, exhausted single-use value): every schedule / stress; the final verify() verdict must carry exactly one recorded reason per mock-induced panic (AllErrorsRecorded) -- validated against ConcTrace.tla"


def run_property(pid, tier, t0):
    import mockplans
    mock = lambda key=None: run_mock(pid, tier, t0, mockplans.PLANS, COMMON_ASSUME, RULES.get(key or pid, ""), plan_key=key)
    life = lambda key=None, extra=None: run_life(pid, tier, t0, LIFE_RULES[key or pid], LIFE_ASSUME, extra, plan_key=key)
    conc = lambda key=None: run_conc(pid, tier, t0, CONC_RULES[key or pid], CONC_ASSUME, plan_key=key)
    if pid == "C08":
        return composite(pid, tier, t0, [("sequential histories (Mock.tla replay)", mock), ("original/clone/thread topologies (Lifecycle.tla replay)", lambda: life("C09")),
                                         ("concurrent errors (Conc.tla, scheduler, trace validation)", conc)])
    if pid == "C12":
        return composite(pid, tier, t0, [("sequential histories (Mock.tla replay)", mock), ("owned leaves inside composites (Shapes.tla cases)", lambda: run_c17(pid, tier, t0)),
                                         ("racing requesters (Conc.tla, scheduler, trace validation)", conc),
                                         ("builder chains that must not type-check (Builder.tla TypeChecks vs rustc)", lambda: run_c14(pid, tier, t0, only_chains=True))])
    if pid == "C13":
        return composite(pid, tier, t0, [("sequential value chains, lending, teardown (Lifecycle.tla replay)", life),
                                         ("concurrent make_ref through a shared instance (Chain.tla, scheduler, trace validation)", lambda: run_chain_conc(pid, tier, t0))])
    if pid in ("C01", "C02", "C03", "C04"):
        parts = [("enumerated behaviours (Mock.tla, replay)", mock),
                 ("random larger configurations (trace validation, MockTrace.tla)", lambda: run_mock_trace(pid, tier, t0))]
        if pid in APALACHE_INV:
            parts.append(("index arithmetic for unbounded counts (Apalache, tla/apalache/BuilderArith.tla)", lambda: run_apalache_arith(pid, tier, t0)))
        if tier == "thorough" and pid in ("C01", "C03"):
            parts.append(("the repository's own tests as traces (event hook H3 on a scratch copy, TestTrace.tla)", lambda: run_repo_tests_as_traces(pid, tier, t0)))
        return composite(pid, tier, t0, parts)
    if pid == "C17":
        return run_c17(pid, tier, t0)
    if pid == "C14":
        return composite(pid, tier, t0, [("clause trees, inconsistent lists, builder chains (Assemble.tla / Builder.tla, generated programs)", lambda: run_c14(pid, tier, t0)),
                                         ("returns that cannot be stored without a mutex API (Mock.tla with HasMutexApi = FALSE, replay on the critical-section-only build)", mock)])
    if pid == "C06":
        return run_matching(pid, tier, t0, "C06")
    if pid == "C20":
        return run_bundled(pid, tier, t0)
    if pid == "C15":
        return composite(pid, tier, t0, [("default-body frames on the universe (Mock.tla, replay)", mock),
                                         ("receiver kinds (Shapes.tla DelegateExpected, generated traits)", lambda: run_delegate_shapes(pid, tier, t0))])
    if pid == "C16":
        return composite(pid, tier, t0, [("re-entrant real functions on the universe (Mock.tla frames, replay)", mock),
                                         ("unmock_with forms / positions / receivers (Shapes.tla UnmockExpected, generated traits)", lambda: run_unmock_shapes(pid, tier, t0))])
    if pid == "C05":
        return run_forward(pid, tier, t0)
    if pid == "C19":
        return composite(pid, tier, t0, [("call / argument / pattern rendering per error kind (Shapes.tla Render)", lambda: run_render(pid, tier, t0)),
                                         ("mismatch positions of guard-free single-alternative patterns (Matching.tla MismatchPositions)", lambda: run_matching(pid, tier, t0, "C19"))])
    if pid == "C07":
        return composite(pid, tier, t0, [("decision table on the universe (Mock.tla FallbackTable, replay)", mock),
                                         ("decision table per receiver kind of the generated impl (Shapes.tla FallbackExpected, generated traits)", lambda: run_fallback_shapes(pid, tier, t0))])
    if pid in mockplans.PLANS and pid != "C11":
        return mock()
    if pid in CONC_PROGS:
        return conc()
    if pid in LIFE_PLANS:
        extra = None
        if pid == "C11":
            extra = lambda: {"sensitivity": life_sensitivity()}
            return composite(pid, tier, t0, [("crash points x instance topologies (Lifecycle.tla replay, process abort = violation)", lambda: life(None, extra)),
                                             ("caught user panics in matchers and answers, then verification (Mock.tla replay)", mock)])
        return life(None, extra)
    raise ToolError("no engine for property %s" % pid)


def replay_file(pid, path):
    doc = json.load(open(path))
    beh = doc.get("beh", doc)
    if isinstance(beh, dict) and beh.get("kind") == "conc-trace":
        tr = os.path.join(vf.WORK, "replay_trace.ndjson")
        open(tr, "w").write("\n".join(json.dumps(e) for e in beh["events"]) + "\n")
        ok, idx, st = validate_trace(tr, "replay_trace")
        if ok:
            print("recorded execution is accepted by ConcTrace.tla")
            return 0
        print("VIOLATION property=%s replay=%s" % (pid, path))
        log("recorded execution rejected at event %s: %s" % (idx, json.dumps(beh["events"][idx - 1])))
        return 1
    import subprocess
    if isinstance(beh, dict) and beh.get("kind") in ("chain-trace", "mock-trace") and beh.get("events"):
        module = "ChainTrace" if beh["kind"] == "chain-trace" else "MockTrace"
        tr = os.path.join(vf.WORK, "replay_trace.ndjson")
        open(tr, "w").write("\n".join(json.dumps(e, separators=(",", ":")) for e in beh["events"]) + "\n")
        ok, idx, st = validate_trace(tr, "replay_trace", module)
        if ok:
            print("recorded execution is accepted by %s.tla" % module)
            return 0
        print("VIOLATION property=%s replay=%s" % (pid, path))
        log("recorded execution rejected at event %s: %s" % (idx, json.dumps(beh["events"][min(idx, len(beh["events"])) - 1])))
        return 1
    if isinstance(beh, dict) and beh.get("kind") in ("generated-case", "chain-trace", "mock-trace"):
        # a case of a generated program (or a crash without recorded events) is replayed by regenerating the program
        # from the model and running the whole quick check again
        log("replaying a generated case: the program is regenerated from the model and the quick check of %s is run again" % pid)
        return run_property(pid, "quick", time.time())
    if isinstance(beh, dict) and "steps" in beh and beh["steps"] and "ev" in beh["steps"][0]:
        # a lifecycle behaviour (Lifecycle.tla): executed by `vh life`
        d = os.path.join(vf.WORK, "replay_life")
        os.makedirs(d, exist_ok=True)
        bf = os.path.join(d, "beh.txt")
        open(bf, "w").write('<<"REPLAY", %s>>\n' % json.dumps(json.dumps(beh)))
        res = os.path.join(d, "result.json")
        mv = max([x for st_ in beh["steps"] for x in st_.get("dropped", []) if x < 1000] + [st_.get("new", 0) for st_ in beh["steps"]] + [6])
        p = subprocess.run([vf.VH, "life", bf, res, "--progress", os.path.join(d, "progress"), "--max-inst", "3", "--max-vals", str(mv)], cwd=vf.VERIF, stderr=subprocess.DEVNULL)
        if p.returncode != 0 or not os.path.exists(res):
            print("VIOLATION property=%s replay=%s" % (pid, path))
            log("the behaviour killed the harness process (exit %s): a panic while unwinding" % p.returncode)
            return 1
        r = json.load(open(res))
        if r.get("divergences"):
            print("VIOLATION property=%s replay=%s" % (pid, path))
            log(json.dumps(r["divergences"][0])[:1000])
            return 1
        print("replayed without divergence")
        return 0
    res = os.path.join(vf.WORK, "replay_result.json")
    p = subprocess.run([vf.VH, "replay", res, "--raw"], input=json.dumps(beh) + "\n", text=True, cwd=vf.VERIF)
    if p.returncode == 2:
        raise ToolError("replay failed")
    r = json.load(open(res))
    for d in r["divergences"]:
        if d.get("in_scope", True):
            print("VIOLATION property=%s replay=%s" % (pid, path))
            log(json.dumps({k: d[k] for k in ("what", "step", "expected", "observed")})[:1000])
            return 1
    print("replayed without divergence")
    return 0
