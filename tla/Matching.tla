------------------------------- MODULE Matching -------------------------------
(***************************************************************************)
(* matching!(...)  (unimock_macros/src/matching/mod.rs, parse.rs)          *)
(*                                                                         *)
(* Values:  int n | <<"None">> | <<"Some", n>> | string | sequence of int  *)
(*          | <<"A">> | <<"B", n>> | <<"C", n>>   (an enum E)              *)
(* Patterns (AST records, field p is the constructor):                     *)
(*   wild | lit v | range lo hi | bind x | at x sub | or alts | none |     *)
(*   some sub | str s | slice pre rest post | var name subs | eq v | ne v  *)
(* An input is [types, alts : Seq(Seq(pattern)), guard].                   *)
(*                                                                         *)
(* Sem / Stmt: what a Rust `match` with the same patterns, guard and       *)
(*   ==/!= comparisons selects (the statement of C06).                     *)
(* Macro: the closure the macro generates: success arms in source order,   *)
(*   each guarded by <global guard> && <per-argument eq/ne guards> spliced *)
(*   as tokens; then the diagnostics arm iff a reporter is enabled and no  *)
(*   global guard exists; then `_ => false`.                               *)
(***************************************************************************)
EXTENDS Naturals, Sequences, FiniteSets, TLC

CONSTANT GuardSplice   \* "paren" : the global guard is spliced as (guard) | "raw" : as bare tokens

P(c) == [p |-> c]
Wild == P("wild")
Lit(v) == [p |-> "lit", v |-> v]
Range(a, b) == [p |-> "range", lo |-> a, hi |-> b]
Bind(x) == [p |-> "bind", x |-> x]
At(x, s) == [p |-> "at", x |-> x, sub |-> s]
Or(alts) == [p |-> "or", alts |-> alts]
PNone == P("none")
PSome(s) == [p |-> "some", sub |-> s]
Str(s) == [p |-> "str", s |-> s]
Slice(pre, rest, post) == [p |-> "slice", pre |-> pre, rest |-> rest, post |-> post]   \* rest: "no" | "yes" | a binding name
Var(n, subs) == [p |-> "var", name |-> n, subs |-> subs]
Eq(v) == [p |-> "eq", v |-> v]
Ne(v) == [p |-> "ne", v |-> v]

RECURSIVE Sem(_, _)
Sem(pt, v) ==
  CASE pt.p \in {"wild", "bind"} -> TRUE
    [] pt.p = "lit"   -> v = pt.v
    [] pt.p = "range" -> pt.lo <= v /\ v <= pt.hi
    [] pt.p = "at"    -> Sem(pt.sub, v)
    [] pt.p = "or"    -> \E i \in 1..Len(pt.alts) : Sem(pt.alts[i], v)
    [] pt.p = "none"  -> v = <<"None">>
    [] pt.p = "some"  -> v[1] = "Some" /\ Sem(pt.sub, v[2])
    [] pt.p = "str"   -> v = pt.s
    [] pt.p = "slice" -> LET n == Len(pt.pre)  m == Len(pt.post) IN
                         /\ (IF pt.rest = "no" THEN Len(v) = n + m ELSE Len(v) >= n + m)
                         /\ \A i \in 1..n : Sem(pt.pre[i], v[i])
                         /\ \A i \in 1..m : Sem(pt.post[i], v[Len(v) - m + i])
    [] pt.p = "var"   -> v[1] = pt.name /\ \A i \in 1..Len(pt.subs) : Sem(pt.subs[i], v[i + 1])
    [] pt.p = "eq"    -> TRUE        \* eq!/ne! positions bind; the comparison is a guard
    [] OTHER          -> TRUE
\* the ==/!= comparison of an eq!/ne! operand
Cmp(pt, v) == CASE pt.p = "eq" -> v = pt.v [] pt.p = "ne" -> v # pt.v [] OTHER -> TRUE

\* top-level bindings of int positions: name -> value (only bind / at are used by guards)
BoundNames(arm) == { arm[i].x : i \in { j \in 1..Len(arm) : arm[j].p \in {"bind", "at"} } }
Env(arm, args) == [x \in BoundNames(arm) |-> args[CHOOSE i \in 1..Len(arm) : arm[i].p \in {"bind", "at"} /\ arm[i].x = x]]

\* guards: none | ge x k | or2 x k1 k2 (x == k1 || x == k2) | ne2 x y | ext v (a condition on outside state, no binding involved)
GuardAtoms(g) == CASE g.g = "or2" -> 2 [] OTHER -> 1
EvalG(g, env) ==
  CASE g.g = "none" -> TRUE
    [] g.g = "ge"   -> env[g.x] >= g.k
    [] g.g = "or2"  -> env[g.x] = g.k1 \/ env[g.x] = g.k2
    [] g.g = "ext"  -> g.v
    [] OTHER        -> env[g.x] # env[g.y]

ArmPats(arm, args) == \A i \in 1..Len(arm) : Sem(arm[i], args[i])
ArmCmps(arm, args) == \A i \in 1..Len(arm) : Cmp(arm[i], args[i])
HasCmp(arm) == \E i \in 1..Len(arm) : arm[i].p \in {"eq", "ne"}

(***************************************************************************)
(* Statement: a match arm `pats if guard && comparisons => true`           *)
(***************************************************************************)
Stmt(input, args) ==
  IF Len(input.alts) = 0 THEN TRUE      \* matching!() accepts everything
  ELSE \E a \in 1..Len(input.alts) :
         LET arm == input.alts[a] IN
         ArmPats(arm, args) /\ EvalG(input.guard, Env(arm, args)) /\ ArmCmps(arm, args)

(***************************************************************************)
(* The generated closure.  The if-guard of an arm is the token sequence    *)
(*      <global guard> && (m_i == l_j) && ...                              *)
(* so a global guard `a || b` spliced raw parses as a || (b && cmps).      *)
(***************************************************************************)
ArmGuard(input, arm, args) ==
  LET env == Env(arm, args)  g == input.guard IN
  IF g.g = "or2" /\ GuardSplice = "raw" /\ HasCmp(arm)
  THEN env[g.x] = g.k1 \/ (env[g.x] = g.k2 /\ ArmCmps(arm, args))
  ELSE EvalG(g, env) /\ ArmCmps(arm, args)
\* first arm (in source order) whose pattern matches decides: Rust falls through to the next arm
\* when the guard is false
Macro(input, args, diag) ==
  IF Len(input.alts) = 0 THEN TRUE
  ELSE LET hit == { a \in 1..Len(input.alts) : ArmPats(input.alts[a], args) /\ ArmGuard(input, input.alts[a], args) } IN
       IF hit # {} THEN TRUE
       ELSE \* the diagnostics arm only reports, then yields false; without it the catch-all yields false
            FALSE
MacroOK(input, args) == Macro(input, args, TRUE) = Stmt(input, args) /\ Macro(input, args, FALSE) = Stmt(input, args)

(***************************************************************************)
(* Mismatch positions (C19): for a guard-free single-alternative input the *)
(* report lists exactly the positions whose sub-pattern rejects the value  *)
(* (wildcards are never listed; eq!/ne! positions when the comparison      *)
(* fails).                                                                 *)
(***************************************************************************)
MismatchPositions(input, args) ==
  LET arm == input.alts[1] IN
  { i \in 1..Len(arm) : arm[i].p # "wild" /\ ~(Sem(arm[i], args[i]) /\ Cmp(arm[i], args[i])) }
=============================================================================
