------------------------------ MODULE Lifecycle ------------------------------
(***************************************************************************)
(* Instances of one mock: the original, clones, delegation helpers,        *)
(* instances lent into value chains; threads; unwinding; teardown.         *)
(* (src/lib.rs Clone/Drop/verify/no_verify_in_drop/report/make_ref/        *)
(*  make_mut, src/teardown.rs, src/default_impl_delegator.rs,              *)
(*  src/value_chain.rs)                                                    *)
(*                                                                         *)
(* The mock under test is fixed: one unordered pattern r0(Arg) returning a *)
(* stored value exactly once (so `cnt # 1` means "an expectation is        *)
(* unmet"), a provided method d0 (delegation helper), nothing else (so a   *)
(* call to r2 is a mock-induced error that gets recorded).  Mock.tla owns  *)
(* the general count semantics; here only its one-bit abstraction matters. *)
(*                                                                         *)
(* Every action is one public operation; `out` is what its caller          *)
(* observes, `dropped` which lent/stored values were destroyed by it.      *)
(***************************************************************************)
EXTENDS Naturals, Sequences, FiniteSets, TLC

CONSTANTS
  MaxInst,      \* instance ids 0..MaxInst; 0 is the original
  Thread,       \* thread ids
  Creator,      \* the thread that builds the mock
  MaxSteps,
  MaxVals,      \* bound on lent value ids
  GuardPos,     \* "early" (the code) | "afterClone" | "afterThread" (sensitivity runs only)
  Ops           \* subset of operation names enabled in this instance

VARIABLES
  inst,       \* [Ids -> record]
  cnt,        \* matches of the one pattern (expectation: exactly 1)
  lends,      \* calls of the lending required method (mentioned by a clause: must be called at least once)
  reasons,    \* number of recorded mock-induced errors
  verified,   \* how many times counts were judged (history variable)
  nextVal,    \* next fresh lent value id
  gone,       \* set of value ids destroyed so far
  steps, out
vars == <<inst, cnt, lends, reasons, verified, nextVal, gone, steps, out>>

Ids == 0..MaxInst
StoredVal == 111          \* the value stored in the pattern: lives as long as the shared state
Dead == [alive |-> FALSE, orig |-> FALSE, torn |-> FALSE, vid |-> TRUE, thr |-> Creator,
         owner |-> 0, owned |-> FALSE, helper |-> FALSE, chain |-> <<>>]
Live(i) == inst[i].alive
Free == { i \in Ids : ~inst[i].alive /\ i # 0 }
UserVisible(i) == Live(i) /\ ~inst[i].owned
RefCnt(f) == Cardinality({ i \in Ids : f[i].alive })
Unmet == cnt # 1 \/ lends = 0

\* everything instance i owns, transitively (helper clone, instances lent into its value chain)
RECURSIVE OwnedBy(_, _, _)
OwnedBy(f, S, n) == IF n = 0 THEN S ELSE OwnedBy(f, S \cup { j \in Ids : f[j].alive /\ f[j].owned /\ f[j].owner \in S }, n - 1)
Owned(f, i) == OwnedBy(f, {i}, MaxInst) \ {i}
\* release what i owns: those instances die (a clone's drop never verifies), their chains are freed,
\* and i's own chain is freed
SeqToSet(s) == { s[k] : k \in 1..Len(s) }
ChainVals(f, S) == UNION { SeqToSet(f[j].chain) : j \in S }
Release(f, i) ==
  [j \in Ids |-> IF j \in Owned(f, i) THEN Dead
                 ELSE IF j = i THEN [f[j] EXCEPT !.chain = <<>>] ELSE f[j]]
ReleasedVals(f, i) == ChainVals(f, Owned(f, i) \cup {i})
\* the instance itself disappears
Gone(f, i) == [Release(f, i) EXCEPT ![i] = Dead]
\* the stored value goes when the last holder of the shared state goes
WithStored(f2, vals) == IF RefCnt(f2) = 0 THEN vals \cup {StoredVal} ELSE vals

\* the operation an action stands for (what the harness executes): uniform record
Ev(op, i, j, t, k, origin) == [op |-> op, i |-> i, j |-> j, t |-> t, k |-> k, origin |-> origin]
NoEv == Ev("init", 0, 0, Creator, 0, "")
O(res) == [res |-> res, unw |-> FALSE, orig |-> FALSE, others |-> FALSE, foreign |-> FALSE, dropped |-> {}, ev |-> NoEv, new |-> 0]
OE(res, ev) == [O(res) EXCEPT !.ev = ev]

Init == /\ inst = [i \in Ids |-> IF i = 0 THEN [Dead EXCEPT !.alive = TRUE, !.orig = TRUE] ELSE Dead]
        /\ cnt = 0 /\ lends = 0 /\ reasons = 0 /\ verified = 0 /\ nextVal = 1 /\ gone = {}
        /\ steps = 0 /\ out = O("init")

(***************************************************************************)
(* teardown.rs, statement by statement.                                    *)
(* unw: std::thread::panicking() on the executing thread.                  *)
(* Result: <<inst after releasing, verdict, judged?>>                      *)
(***************************************************************************)
Judge == IF reasons > 0 THEN "fail:reasons" ELSE IF Unmet THEN "fail:unmet" ELSE "silent"
Teardown(i, t, unw) ==
  LET f1 == [inst EXCEPT ![i].torn = TRUE]
      f2 == Release(f1, i)                       \* helper first, then the value chain
      cloneAlive  == RefCnt(f2) > 1
      wrongThread == t # Creator
      res == IF ~f2[i].orig THEN "silent"                                  \* clones never verify
             ELSE IF GuardPos = "early" /\ unw THEN "silent"               \* never panic while unwinding
             ELSE IF cloneAlive THEN "panic:clones"
             ELSE IF GuardPos = "afterClone" /\ unw THEN "silent"
             ELSE IF wrongThread THEN "panic:thread"
             ELSE IF GuardPos = "afterThread" /\ unw THEN "silent"
             ELSE Judge
  IN <<f2, res, f2[i].orig /\ res \in {"silent", "fail:reasons", "fail:unmet"} /\ ~unw>>

Step == steps < MaxSteps /\ steps' = steps + 1
En(op) == op \in Ops
Lowest(S) == CHOOSE j \in S : \A k \in S : j <= k

Finish1(f2, vals, o) ==
  /\ inst' = f2
  /\ gone' = gone \cup WithStored(f2, vals)
  /\ out' = [o EXCEPT !.dropped = WithStored(f2, vals) \ gone]

\* ---- clone / helpers / lending ----
Clone(i) ==
  /\ En("clone") /\ Step /\ UserVisible(i) /\ Free # {}
  /\ inst' = [inst EXCEPT ![Lowest(Free)] = [Dead EXCEPT !.alive = TRUE, !.vid = inst[i].vid, !.thr = inst[i].thr]]
  /\ out' = [OE("silent", Ev("clone", i, 0, inst[i].thr, 0, "")) EXCEPT !.new = Lowest(Free)]
  /\ UNCHANGED <<cnt, lends, reasons, verified, nextVal, gone>>
\* a provided method called on i with no clause: the default body runs on a lazily created helper clone
Delegate(i) ==
  /\ En("delegate") /\ Step /\ UserVisible(i)
  /\ IF \E h \in Ids : Live(h) /\ inst[h].helper /\ inst[h].owner = i
     THEN inst' = inst
     ELSE /\ Free # {}
          /\ inst' = [inst EXCEPT ![Lowest(Free)] = [Dead EXCEPT !.alive = TRUE, !.vid = inst[i].vid, !.thr = inst[i].thr,
                                                                 !.owned = TRUE, !.owner = i, !.helper = TRUE]]
  /\ out' = OE("ret:default", Ev("delegate", i, 0, inst[i].thr, 0, "")) /\ UNCHANGED <<cnt, lends, reasons, verified, nextVal, gone>>
\* a provided method with a pinned receiver called on i; its body calls a required method on the helper, whose
\* answer lends a value through the instance it is given: the value lives in the helper's chain
PinLend(i) ==
  /\ En("pinlend") /\ Step /\ UserVisible(i) /\ nextVal <= MaxVals
  /\ LET has == \E h \in Ids : Live(h) /\ inst[h].helper /\ inst[h].owner = i IN
       /\ (has \/ Free # {})
       /\ LET h  == IF has THEN CHOOSE x \in Ids : Live(x) /\ inst[x].helper /\ inst[x].owner = i ELSE Lowest(Free)
              f0 == IF has THEN inst
                    ELSE [inst EXCEPT ![h] = [Dead EXCEPT !.alive = TRUE, !.vid = inst[i].vid, !.thr = inst[i].thr, !.owned = TRUE, !.owner = i, !.helper = TRUE]]
          IN inst' = [f0 EXCEPT ![h].chain = Append(@, nextVal)]
  /\ lends' = lends + 1 /\ nextVal' = nextVal + 1
  /\ out' = [OE("ret:lent", Ev("pinlend", i, 0, inst[i].thr, 0, "")) EXCEPT !.new = nextVal]
  /\ UNCHANGED <<cnt, reasons, verified, gone>>
\* the same provided method, but the answer running on the helper lends a CLONE OF THE HELPER through it
\* (`u.make_ref(u.clone())`): an instance owned by the helper, two levels below i
PinLendClone(i) ==
  /\ En("pinlendclone") /\ Step /\ UserVisible(i)
  /\ LET has == \E h \in Ids : Live(h) /\ inst[h].helper /\ inst[h].owner = i
         need == IF has THEN 1 ELSE 2 IN
       /\ Cardinality(Free) >= need
       /\ LET h  == IF has THEN CHOOSE x \in Ids : Live(x) /\ inst[x].helper /\ inst[x].owner = i ELSE Lowest(Free)
              f0 == IF has THEN inst
                    ELSE [inst EXCEPT ![h] = [Dead EXCEPT !.alive = TRUE, !.vid = inst[i].vid, !.thr = inst[i].thr, !.owned = TRUE, !.owner = i, !.helper = TRUE]]
              c  == Lowest(Free \ {h})
          IN inst' = [f0 EXCEPT ![c] = [Dead EXCEPT !.alive = TRUE, !.vid = inst[i].vid, !.thr = inst[i].thr, !.owned = TRUE, !.owner = h]]
  /\ lends' = lends + 1
  /\ out' = OE("ret:lent", Ev("pinlendclone", i, 0, inst[i].thr, 0, ""))
  /\ UNCHANGED <<cnt, reasons, verified, nextVal, gone>>
\* i.make_ref(j): clone j moves into i's value chain
Lend(i, j) ==
  /\ En("lend") /\ Step /\ UserVisible(i) /\ UserVisible(j) /\ i # j /\ ~inst[j].orig /\ inst[i].thr = inst[j].thr
  /\ inst' = [inst EXCEPT ![j].owned = TRUE, ![j].owner = i]
  /\ out' = OE("silent", Ev("lend", i, j, inst[i].thr, 0, "")) /\ UNCHANGED <<cnt, lends, reasons, verified, nextVal, gone>>
Move(i, t) ==
  /\ En("move") /\ Step /\ UserVisible(i) /\ inst[i].thr # t
  /\ inst' = [j \in Ids |-> IF j = i \/ j \in Owned(inst, i) THEN [inst[j] EXCEPT !.thr = t] ELSE inst[j]]
  /\ out' = OE("silent", Ev("move", i, 0, t, 0, "")) /\ UNCHANGED <<cnt, lends, reasons, verified, nextVal, gone>>

\* ---- calls ----
CallHit(i) ==
  /\ En("hit") /\ Step /\ UserVisible(i) /\ cnt < 3
  /\ cnt' = cnt + 1 /\ out' = OE("ret:111", Ev("hit", i, 0, inst[i].thr, 0, ""))
  /\ UNCHANGED <<inst, lends, reasons, verified, nextVal, gone>>
CallErr(i) ==    \* a call nothing answers: recorded, then the call panics (caught by the caller here)
  /\ En("err") /\ Step /\ UserVisible(i) /\ reasons < 2
  /\ reasons' = reasons + 1 /\ out' = OE("panic:mock", Ev("err", i, 0, inst[i].thr, 0, ""))
  /\ UNCHANGED <<inst, cnt, lends, verified, nextVal, gone>>

\* ---- value chain (C13) ----
\* k values lent in one borrow epoch through &self; every earlier reference of the epoch is re-read
\* after each push by the harness (they must all still designate their own value)
MakeRef(i, k) ==
  /\ En("make_ref") /\ Step /\ UserVisible(i) /\ nextVal + k - 1 <= MaxVals
  /\ inst' = [inst EXCEPT ![i].chain = @ \o [x \in 1..k |-> nextVal + x - 1]]
  /\ nextVal' = nextVal + k
  /\ out' = [OE("refs", Ev("make_ref", i, 0, inst[i].thr, k, "")) EXCEPT !.new = nextVal]
  /\ UNCHANGED <<cnt, lends, reasons, verified, gone>>
\* make_mut needs exclusive access: the old chain (and instances lent into it) is released
MakeMut(i) ==
  /\ En("make_mut") /\ Step /\ UserVisible(i) /\ nextVal <= MaxVals
  /\ LET own == { j \in Owned(inst, i) : ~(inst[j].owner = i /\ inst[j].helper) /\
                                        ~(\E h \in Ids : inst[h].alive /\ inst[h].helper /\ inst[h].owner = i /\ j \in Owned(inst, h)) }
         f2  == [j \in Ids |-> IF j \in own THEN Dead ELSE IF j = i THEN [inst[j] EXCEPT !.chain = <<nextVal>>] ELSE inst[j]]
         vals == ChainVals(inst, own \cup {i})
     IN /\ inst' = f2 /\ gone' = gone \cup vals
        /\ out' = [OE("mutref", Ev("make_mut", i, 0, inst[i].thr, 0, "")) EXCEPT !.dropped = vals \ gone, !.new = nextVal]
  /\ nextVal' = nextVal + 1
  /\ UNCHANGED <<cnt, lends, reasons, verified>>

\* ---- ends of life ----
DropI(i, unw, ev) ==
  IF inst[i].torn \/ ~inst[i].vid
  THEN /\ Finish1(Gone(inst, i), ReleasedVals(inst, i), [OE("silent", ev) EXCEPT !.unw = unw, !.orig = inst[i].orig])
       /\ UNCHANGED verified
  ELSE LET r == Teardown(i, inst[i].thr, unw) IN
       /\ Finish1(Gone(r[1], i), ReleasedVals(inst, i),
                  [OE(r[2], ev) EXCEPT !.unw = unw, !.orig = inst[i].orig, !.others = RefCnt(r[1]) > 1, !.foreign = inst[i].thr # Creator])
       /\ verified' = IF r[3] THEN verified + 1 ELSE verified
Drop(i) == /\ En("drop") /\ Step /\ UserVisible(i) /\ DropI(i, FALSE, Ev("drop", i, 0, inst[i].thr, 0, "")) /\ UNCHANGED <<cnt, lends, reasons, nextVal>>

Verify(i) ==
  /\ En("verify") /\ Step /\ UserVisible(i)
  /\ IF ~inst[i].orig
     THEN /\ Finish1(Gone(inst, i), ReleasedVals(inst, i), OE("panic:verify-on-clone", Ev("verify", i, 0, inst[i].thr, 0, ""))) /\ UNCHANGED verified
     ELSE LET r == Teardown(i, inst[i].thr, FALSE) IN
          /\ Finish1(Gone(r[1], i), ReleasedVals(inst, i),
                     [OE(r[2], Ev("verify", i, 0, inst[i].thr, 0, "")) EXCEPT !.orig = TRUE, !.others = RefCnt(r[1]) > 1, !.foreign = inst[i].thr # Creator])
          /\ verified' = IF r[3] THEN verified + 1 ELSE verified
  /\ UNCHANGED <<cnt, lends, reasons, nextVal>>
\* report(): the same verdict as an exit code; panics exactly where verify() panics for clones/thread
Report(i) ==
  /\ En("report") /\ Step /\ UserVisible(i)
  /\ LET r   == Teardown(i, inst[i].thr, FALSE)
         res == IF r[2] = "silent" THEN "code:SUCCESS" ELSE IF r[2] \in {"fail:reasons", "fail:unmet"} THEN "code:FAILURE" ELSE r[2]
     IN /\ Finish1(Gone(r[1], i), ReleasedVals(inst, i),
                   [OE(res, Ev("report", i, 0, inst[i].thr, 0, "")) EXCEPT !.orig = inst[i].orig, !.others = RefCnt(r[1]) > 1, !.foreign = inst[i].thr # Creator])
        /\ verified' = IF r[3] THEN verified + 1 ELSE verified
  /\ UNCHANGED <<cnt, lends, reasons, nextVal>>
NoVerify(i) ==
  /\ En("noverify") /\ Step /\ UserVisible(i)
  /\ IF ~inst[i].orig
     THEN Finish1(Gone(inst, i), ReleasedVals(inst, i), OE("panic:noverify-on-clone", Ev("noverify", i, 0, inst[i].thr, 0, "")))
     ELSE /\ inst' = [inst EXCEPT ![i].vid = FALSE] /\ out' = OE("silent", Ev("noverify", i, 0, inst[i].thr, 0, "")) /\ UNCHANGED gone
  /\ UNCHANGED <<cnt, lends, reasons, verified, nextVal>>

\* ---- a panic on thread t (C11) ----
\* A call on instance e panics, or plain user code does, on thread t; while the thread unwinds,
\* instance i -- a local of the panicking frame -- is dropped (i = NoInst: nothing is dropped, the
\* panic is simply caught: the mock must remain usable).
\*   origin "user"    : user code panics between calls
\*          "mock"    : the call on e is answered by nothing: recorded, then the mock panics
\*          "real"    : the call resolves to the registered real function, which panics
\*          "default" : the call runs the trait's default body (on e's helper), which panics
\*          "matcher" : the input matcher panics: nothing has been counted yet
\*          "clone"   : the pattern matched and was counted, then the stored value's Clone panics
NoInst == MaxInst + 1
\*          "userfresh": like "user", and a destructor running during the unwinding builds a fresh mock with an
\*                      unmet expectation and drops it again (a scope guard's cleanup code): silent as well
\*          "explicit" : the call hits a `.panics(msg)` response: recorded like any mock-induced error, then the mock panics
\*          "argdebug" : the same call, but the Debug rendering of its argument (for the error text) panics: the
\*                       error never comes into being, nothing is recorded; a user panic like "matcher"
Origins == {"user", "userfresh", "mock", "explicit", "argdebug", "real", "default", "matcher", "clone"}
PanicOn(t, e, origin, i) ==
  /\ En("unwind") /\ Step
  /\ UserVisible(e) /\ inst[e].thr = t
  /\ (i # NoInst => (UserVisible(i) /\ inst[i].thr = t))
  /\ (origin \in {"mock", "explicit"} => reasons < 2) /\ (origin = "clone" => cnt < 3)
  /\ (origin = "default" => ((\E h \in Ids : Live(h) /\ inst[h].helper /\ inst[h].owner = e) \/ Free # {}))
  /\ reasons' = IF origin \in {"mock", "explicit"} THEN reasons + 1 ELSE reasons
  /\ cnt' = IF origin = "clone" THEN cnt + 1 ELSE cnt
  /\ UNCHANGED lends
  /\ LET f0 == IF origin = "default" /\ ~(\E h \in Ids : Live(h) /\ inst[h].helper /\ inst[h].owner = e)
               THEN [inst EXCEPT ![Lowest(Free)] = [Dead EXCEPT !.alive = TRUE, !.vid = inst[e].vid, !.thr = inst[e].thr,
                                                                      !.owned = TRUE, !.owner = e, !.helper = TRUE]]
               ELSE inst
         ev == Ev("unwind", i, e, t, 0, origin)
     IN IF i = NoInst
        THEN /\ inst' = f0 /\ out' = [OE("silent", ev) EXCEPT !.unw = TRUE] /\ UNCHANGED <<gone, verified>>
        ELSE \* DropI on the state after the call's own effects
             IF f0[i].torn \/ ~f0[i].vid
             THEN /\ Finish1(Gone(f0, i), ReleasedVals(f0, i), [OE("silent", ev) EXCEPT !.unw = TRUE, !.orig = f0[i].orig])
                  /\ UNCHANGED verified
             ELSE LET f1 == [f0 EXCEPT ![i].torn = TRUE]
                      f2 == Release(f1, i)
                      cloneAlive == RefCnt(f2) > 1
                      wrongThread == t # Creator
                      res == IF ~f2[i].orig THEN "silent"
                             ELSE IF GuardPos = "early" THEN "silent"
                             ELSE IF cloneAlive THEN "panic:clones"
                             ELSE IF GuardPos = "afterClone" THEN "silent"
                             ELSE IF wrongThread THEN "panic:thread"
                             ELSE "silent"
                  IN /\ Finish1(Gone(f2, i), ReleasedVals(f0, i),
                                [OE(res, ev) EXCEPT !.unw = TRUE, !.orig = f0[i].orig, !.others = cloneAlive, !.foreign = wrongThread])
                     /\ UNCHANGED verified
  /\ UNCHANGED nextVal

Next ==
  \/ \E i \in Ids : PinLend(i) \/ PinLendClone(i)
  \/ \E i \in Ids : Clone(i) \/ Delegate(i) \/ CallHit(i) \/ CallErr(i) \/ Drop(i) \/ Verify(i) \/ Report(i) \/ NoVerify(i) \/ MakeMut(i)
  \/ \E i \in Ids, k \in 1..2 : MakeRef(i, k)
  \/ \E i, j \in Ids : Lend(i, j)
  \/ \E i \in Ids, t \in Thread : Move(i, t)
  \/ \E t \in Thread, e \in Ids, i \in Ids \cup {NoInst}, origin \in Origins : PanicOn(t, e, origin, i)
Spec == Init /\ [][Next]_vars

(***************************************************************************)
(* Properties                                                              *)
(***************************************************************************)
\* C11: nothing executed while unwinding panics again
NoDoublePanic == out.unw => out.res = "silent"
\* C09: dropping / reporting a clone never verifies and never panics
ClonesNeverVerify ==
  (~out.orig /\ out.res \notin {"panic:verify-on-clone", "panic:noverify-on-clone", "panic:mock", "init"})
     => out.res \in {"silent", "ret:111", "ret:default", "ret:lent", "refs", "mutref", "code:SUCCESS"}
\* C09: the original's verification panics iff a clone is alive, else iff on a foreign thread (checked after the unwinding guard)
VerifyPanicsIff ==
  (out.orig /\ ~out.unw /\ out.ev.op \in {"verify", "report"}) =>
     /\ (out.res = "panic:clones") <=> out.others
     /\ (out.res = "panic:thread") <=> (~out.others /\ out.foreign)
\* report() agrees with verify(): FAILURE exactly for unmet expectations or recorded errors
ReportAgrees == (out.ev.op = "report" /\ out.orig /\ ~out.others /\ ~out.foreign) =>
                   (out.res = "code:FAILURE") <=> (reasons > 0 \/ Unmet)
VerifiedAtMostOnce == verified <= 1
OrigGoneAfterVerify == verified = 1 => ~inst[0].alive
\* C13: values are destroyed at most once, and a lent value only when its owner released it
\* (gone only grows; `dropped` of a step never contains an id that was already gone: by construction
\*  of Finish1; the harness checks the same against real drop counters)
ChainsDisjoint == \A i, j \in Ids : (i # j /\ Live(i) /\ Live(j)) => SeqToSet(inst[i].chain) \cap SeqToSet(inst[j].chain) = {}
LiveValsNotGone == \A i \in Ids : Live(i) => SeqToSet(inst[i].chain) \cap gone = {}
StoredWhileShared == (RefCnt(inst) > 0) => StoredVal \notin gone
=============================================================================
