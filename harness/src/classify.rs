//! Recognise mock-induced panic classes from minimal markers of src/error.rs texts, and parse
//! verification lines.
pub fn class_of(msg: &str) -> &'static str {
    const MARKERS: [(&str, &str); 13] = [
        ("No mock implementation found", "NoMockImplementation"),
        ("No matching call patterns", "NoMatchingCallPatterns"),
        ("No output available for after matching", "NoOutput"),
        ("Method matched in wrong order", "CallOrderNotMatched"),
        ("There were no more ordered call patterns in line for selection", "CallOrderNotMatched"),
        ("but inputs didn't match", "InputsNotMatchedInCallOrder"),
        ("Cannot return value more than once", "CannotReturnValueMoreThanOnce"),
        ("Explicit panic from", "ExplicitPanic"),
        ("cannot be unmocked as there is no function available to call", "CannotUnmock"),
        ("has not been set up with default implementation delegation", "NoDefaultImpl"),
        ("No function supplied for matching inputs", "NoMatcherFunction"),
        ("did not apply the answer function", "NotAnswered"),
        ("Failed to downcast", "Downcast"),
    ];
    for (marker, class) in MARKERS {
        if msg.contains(marker) {
            return class;
        }
    }
    "other"
}

pub fn new_err_class(msg: &str) -> &'static str {
    if msg.contains("Stub contained no call patterns") {
        "EmptyStub"
    } else if msg.contains("has already been registered as") {
        "ModeConflict"
    } else if msg.contains("No Mutex API available") {
        "NoMutexApi"
    } else {
        "other"
    }
}

pub fn ncalls(n: u64) -> String {
    match n {
        0 => "no calls".to_string(),
        1 => "1 call".to_string(),
        n => format!("{n} calls"),
    }
}

fn parse_ncalls(s: &str) -> Option<u64> {
    match s {
        "no calls" => Some(0),
        "1 call" => Some(1),
        _ => s.strip_suffix(" calls").and_then(|n| n.parse().ok()),
    }
}

#[derive(Debug, Clone, PartialEq, Eq, PartialOrd, Ord, serde::Serialize)]
pub enum VLine {
    /// pattern label (source text), exact?, wanted, got
    Pat { path: String, label: String, exact: bool, want: u64, got: u64 },
    Never { path: String },
    Unparsed(String),
}

/// `T::m: Expected T::m<label> at file:line to match exactly|at least N, but it actually matched K.`
pub fn parse_vline(line: &str) -> VLine {
    if let Some(rest) = line.strip_prefix("Mock for ") {
        if let Some(path) = rest.strip_suffix(" was never called. Dead mocks should be removed.") {
            return VLine::Never { path: path.to_string() };
        }
    }
    let try_pat = || -> Option<VLine> {
        let (path, rest) = line.split_once(": Expected ")?;
        let (pat, rest) = rest.split_once(" to match ")?;
        let (exact, rest) = if let Some(r) = rest.strip_prefix("exactly ") {
            (true, r)
        } else {
            (false, rest.strip_prefix("at least ")?)
        };
        let (want, rest) = rest.split_once(", but it actually matched ")?;
        let got = rest.strip_suffix('.')?;
        let pat = pat.strip_prefix(path)?;
        let label = match pat.rsplit_once(" at ") {
            Some((l, _loc)) => l,
            None => pat,
        };
        Some(VLine::Pat {
            path: path.to_string(),
            label: label.to_string(),
            exact,
            want: parse_ncalls(want)?,
            got: parse_ncalls(got)?,
        })
    };
    try_pat().unwrap_or_else(|| VLine::Unparsed(line.to_string()))
}
