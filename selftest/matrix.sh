#!/bin/bash
# runs every seeded change against its own property's quick check (and the cross-checks listed in meta.json "checks")
cd /verif
for d in seeded/*/; do id=$(basename $d); python3 selftest/run_seeded.py $id; done
