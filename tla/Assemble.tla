------------------------------ MODULE Assemble -------------------------------
(***************************************************************************)
(* Clause trees and MockAssembler (src/clause.rs, src/assemble.rs).        *)
(*                                                                         *)
(* leaf  = [m : method, form : Forms, pats : Seq([pred : SUBSET Arg, chain : Seq(segment)])]   *)
(*         some/each/next leaves have exactly one pattern, stub leaves 0..n *)
(* tree  = [leaf |-> l] | [kids |-> Seq(tree)]   (kids of length 0 is `()`) *)
(***************************************************************************)
EXTENDS Builder

IsLeaf(t) == "leaf" \in DOMAIN t

\* in-order leaves, the way tuple_nonterminal_impl! does it: element 0, then 1, ... each recursively
RECURSIVE Leaves(_), LeavesOfKids(_, _)
Leaves(t) == IF IsLeaf(t) THEN <<t.leaf>> ELSE LeavesOfKids(t.kids, 1)
LeavesOfKids(kids, i) == IF i > Len(kids) THEN <<>> ELSE Leaves(kids[i]) \o LeavesOfKids(kids, i + 1)

(***************************************************************************)
(* Assembly: MockAssembler::push for every pattern of every leaf in order. *)
(* noMx is the set of methods whose single-use returns() cannot be stored  *)
(* in the current feature set: empty when a mutex API exists (std or       *)
(* spin-lock), otherwise the methods with an owned output (a lent output   *)
(* is stored once and borrowed, it needs no mutex).                        *)
(***************************************************************************)
\* pattern record stored per method
MkPat(leaf, li, pi, b, lo, hi) ==
  [pred |-> leaf.pats[pi].pred, chain |-> leaf.pats[pi].chain, form |-> leaf.form,
   resps |-> b.resps, min |-> b.min, ex |-> b.ex, lo |-> lo, hi |-> hi, li |-> li, pi |-> pi]

RECURSIVE AsmPats(_, _, _, _, _)
AsmPats(leaf, li, j, st, noMx) ==
  IF st.err.k # "ok" \/ j > Len(leaf.pats) THEN st
  ELSE LET pb   == leaf.pats[j]
           mode == Mode(leaf.form)
           b    == Run(leaf.form, pb.chain)
           needsMutex == \E i \in 1..Len(pb.chain) : SingleUse(leaf.form, i, pb.chain[i])
           lo   == IF mode = "ord" THEN st.cur ELSE 0
           hi   == IF mode = "ord" THEN st.cur + b.min ELSE 0
           cur2 == IF mode = "ord" THEN hi ELSE st.cur
       IN IF needsMutex /\ leaf.m \in noMx
          THEN [st EXCEPT !.err = [k |-> "NoMutexApi", m |-> leaf.m]]
          ELSE IF leaf.m \in DOMAIN st.tab /\ st.tab[leaf.m].mode # mode
          THEN [st EXCEPT !.err = [k |-> "ModeConflict", m |-> leaf.m]]
          ELSE LET old  == IF leaf.m \in DOMAIN st.tab THEN st.tab[leaf.m].pats ELSE <<>>
                   tab2 == [mm \in (DOMAIN st.tab) \cup {leaf.m} |->
                              IF mm = leaf.m THEN [mode |-> mode, pats |-> Append(old, MkPat(leaf, li, j, b, lo, hi))]
                              ELSE st.tab[mm]]
               IN AsmPats(leaf, li, j + 1, [tab |-> tab2, cur |-> cur2, err |-> st.err], noMx)

RECURSIVE AsmFrom(_, _, _, _)
AsmFrom(leaves, i, st, noMx) ==
  IF st.err.k # "ok" \/ i > Len(leaves) THEN st
  ELSE IF Len(leaves[i].pats) = 0 THEN [st EXCEPT !.err = [k |-> "EmptyStub", m |-> leaves[i].m]]
  ELSE AsmFrom(leaves, i + 1, AsmPats(leaves[i], i, 1, st, noMx), noMx)

EmptyTab == [x \in {} |-> 0]
Assemble(leaves, noMx) ==
  AsmFrom(leaves, 1, [tab |-> EmptyTab, cur |-> 0, err |-> [k |-> "ok"]], noMx)

(***************************************************************************)
(* The statement of C14, second sentence, independent of the order in      *)
(* which push() happens to test things: the set of reasons for which a     *)
(* clause list must be rejected.  Construction must fail iff the set is    *)
(* non-empty, with (any) one of its members; which one is reported when    *)
(* several apply is an accident of the implementation.                     *)
(***************************************************************************)
Offences(leaves, noMx) ==
  { [k |-> "EmptyStub", m |-> leaves[i].m] : i \in { j \in 1..Len(leaves) : Len(leaves[j].pats) = 0 } }
  \cup { [k |-> "ModeConflict", m |-> leaves[i].m] :
            i \in { j \in 1..Len(leaves) : Len(leaves[j].pats) > 0 /\
                      \E h \in 1..Len(leaves) : Len(leaves[h].pats) > 0 /\ leaves[h].m = leaves[j].m /\ Mode(leaves[h].form) # Mode(leaves[j].form) } }
  \cup { [k |-> "NoMutexApi", m |-> leaves[i].m] :
            i \in { j \in 1..Len(leaves) : leaves[j].m \in noMx /\
                      \E pj \in 1..Len(leaves[j].pats) : \E si \in 1..Len(leaves[j].pats[pj].chain) : SingleUse(leaves[j].form, si, leaves[j].pats[pj].chain[si]) } }
\* push()'s verdict is one of the offences, and "ok" exactly when there is none
AssembleAgrees(leaves, noMx) ==
  LET e == Assemble(leaves, noMx).err  o == Offences(leaves, noMx) IN
  IF o = {} THEN e.k = "ok" ELSE e \in o

(***************************************************************************)
(* The statement of C04: the flattened expected sequence.                  *)
(***************************************************************************)
RECURSIVE Rep(_, _)
Rep(x, n) == IF n = 0 THEN <<>> ELSE <<x>> \o Rep(x, n - 1)
RECURSIVE FlatFrom(_, _)
FlatFrom(leaves, i) ==
  IF i > Len(leaves) THEN <<>>
  ELSE (IF leaves[i].form = "next"
        THEN LET c == Norm("next", leaves[i].pats[1].chain) IN
             [k \in 1..Total(c) |-> [m |-> leaves[i].m, li |-> i, pred |-> leaves[i].pats[1].pred,
                                      seg |-> Governing(c, k)]]
        ELSE <<>>) \o FlatFrom(leaves, i + 1)
Flat(leaves) == FlatFrom(leaves, 1)

PatIx(tab, m) == 1..Len(tab[m].pats)
AllPats(tab) == UNION { { <<m, i>> : i \in PatIx(tab, m) } : m \in DOMAIN tab }
Owners(tab, s) == { o \in AllPats(tab) : tab[o[1]].pats[o[2]].lo <= s /\ s < tab[o[1]].pats[o[2]].hi }

\* cumulative slot ranges = flattened sequence
FlatOK(leaves) ==
  LET a == Assemble(leaves, {})  f == Flat(leaves) IN
  a.err.k = "ok" =>
    /\ a.cur = Len(f)
    /\ \A s \in 0..(Len(f) - 1) :
         /\ Cardinality(Owners(a.tab, s)) = 1
         /\ \A o \in Owners(a.tab, s) :
               /\ o[1] = f[s + 1].m
               /\ a.tab[o[1]].pats[o[2]].li = f[s + 1].li
               \* the response of the slot: position inside the pattern = s - lo
               /\ LET p == a.tab[o[1]].pats[o[2]] IN p.resps[Lookup(p.resps, s - p.lo)].seg = f[s + 1].seg
    /\ \A s \in Len(f)..(Len(f) + 2) : Owners(a.tab, s) = {}

(***************************************************************************)
(* C18: assembly is invariant under reorderings that keep each method's    *)
(* own pattern order and the relative order of ordered leaves.             *)
(***************************************************************************)
\* what a call can observe of a table: per method the pattern sequence (predicates, chains, slots)
Observable(a) ==
  IF a.err.k # "ok" THEN [err |-> "rejected"]   \* which of several errors is reported first may depend on the order
  ELSE [tab |-> [m \in DOMAIN a.tab |->
           [mode |-> a.tab[m].mode,
            pats |-> [i \in PatIx(a.tab, m) |->
                        [pred |-> a.tab[m].pats[i].pred, chain |-> a.tab[m].pats[i].chain,
                         form |-> a.tab[m].pats[i].form, lo |-> a.tab[m].pats[i].lo, hi |-> a.tab[m].pats[i].hi]]]]]

SubSeqOf(leaves, P(_)) == SelectSeq(leaves, P)
\* perm is a bijection on 1..Len(leaves); Permuted(leaves, perm)[i] = leaves[perm[i]]
Permuted(leaves, perm) == [i \in 1..Len(leaves) |-> leaves[perm[i]]]
\* (positions, not values: two equal leaves are still two clauses with their own responses)
Admissible(leaves, perm) ==
  \A i, j \in 1..Len(leaves) :
     (i < j /\ (leaves[perm[i]].m = leaves[perm[j]].m \/ (leaves[perm[i]].form = "next" /\ leaves[perm[j]].form = "next")))
        => perm[i] < perm[j]
Perms(n) == { f \in [1..n -> 1..n] : \A i, j \in 1..n : i # j => f[i] # f[j] }
PermInvariant(leaves) ==
  \A perm \in Perms(Len(leaves)) :
     Admissible(leaves, perm) =>
        Observable(Assemble(Permuted(leaves, perm), {})) = Observable(Assemble(leaves, {}))
=============================================================================
