//! Replay of Lifecycle.tla behaviours: instances (original, clones, helpers, lent instances),
//! two threads, unwinding, value chains.  Every operation runs on the thread the model says the
//! instance lives on; a double panic aborts the process, which the driver detects through the
//! progress file.
use crate::replay::{payload_to_obs, Obs};
use crate::universe::*;
use crate::vals::*;
use serde::{Deserialize, Serialize};
use serde_json::{json, Value};
use std::io::{BufRead, Write};
use std::panic::{catch_unwind, AssertUnwindSafe};
use std::sync::mpsc;
use unimock::*;

#[derive(Clone, Debug, Deserialize, Serialize)]
pub struct Ev {
    pub op: String,
    pub i: usize,
    pub j: usize,
    pub t: usize,
    pub k: usize,
    pub origin: String,
}
#[derive(Clone, Debug, Deserialize, Serialize)]
pub struct LStep {
    pub ev: Ev,
    pub res: String,
    /// the other outcome the statement allows for this step (equal to `res` almost always)
    #[serde(default)]
    pub alt: Option<String>,
    /// instances that cease to exist in this step
    #[serde(default)]
    pub rel: Vec<usize>,
    pub dropped: Vec<u32>,
    pub new: usize,
}
#[derive(Clone, Debug, Deserialize, Serialize)]
pub struct LBeh {
    pub steps: Vec<LStep>,
}

pub const LENT_BASE: u32 = 2000;
pub const STORED: u32 = 111;

type Job = Box<dyn FnOnce() + Send>;
pub struct Worker {
    tx: mpsc::Sender<Job>,
}
impl Worker {
    pub fn new() -> Worker {
        let (tx, rx) = mpsc::channel::<Job>();
        std::thread::spawn(move || {
            for job in rx {
                job();
            }
        });
        Worker { tx }
    }
    pub fn run<R: Send + 'static>(&self, f: impl FnOnce() -> R + Send + 'static) -> R {
        let (rtx, rrx) = mpsc::channel();
        self.tx
            .send(Box::new(move || {
                let _ = rtx.send(f());
            }))
            .unwrap();
        rrx.recv().expect("worker died")
    }
}

/// partial mock: r0(a) answered once by a stored value (its matcher panics on 7);
/// r1 falls through to its real function, d0 to its default body, r2 to nothing (a recorded error)
pub fn life_mock() -> Unimock {
    life_mock_with(STORED)
}
pub fn life_mock_with(stored: u32) -> Unimock {
    let u = Unimock::new_partial((
        UMock::lendreq.each_call(matching!(_)).answers(&|u, a| {
            // lend a value through whatever instance evaluates the call (the delegation helper for `dp`)
            if a == 200 {
                // lend a clone of the evaluating instance itself (op "pinlendclone"): owned two levels below the caller
                let _c: &Unimock = u.make_ref(u.clone());
                return Val::new(0);
            }
            let _r: &Val = u.make_ref(Val::new(LENT_BASE + a as u32));
            Val::new(0)
        }),
        UMock::r0
            .each_call(&|m| {
                m.func(|a: &u8, _| {
                    if *a == 7 {
                        std::panic::panic_any(UserPanic(7));
                    }
                    true
                });
                m.pat_debug("(_)", "life", 1);
            })
            .returns(Val::new(stored))
            .n_times(1),
        // an explicit-panic response whose message renders the argument (origins "explicit" and "argdebug");
        // the first pattern is hit once right here so that the method never counts as "never called"
        UMock::pd.stub(|each| {
            each.call(matching!(PD(200))).returns(0u8);
            each.call(matching!(_)).panics("boo");
        }),
    ));
    let _ = u.pd(PD(200));
    u
}

fn classify_teardown(msg: &str) -> String {
    if msg.contains("clones still alive") {
        "panic:clones".into()
    } else if msg.contains("destroyed on a different thread") {
        "panic:thread".into()
    } else if msg.contains("Called verify() on a cloned instance") {
        "panic:verify-on-clone".into()
    } else if msg.contains("Called no_verify_on_drop() on a cloned instance") {
        "panic:noverify-on-clone".into()
    } else if msg.contains("No mock implementation found") || msg.contains("cannot be unmocked") || msg.contains("Explicit panic from") {
        "fail:reasons".into()
    } else if msg.contains("to match exactly") || msg.contains("was never called") {
        "fail:unmet".into()
    } else {
        format!("panic:other:{msg}")
    }
}

fn obs_res(r: Result<String, Box<dyn std::any::Any + Send>>) -> String {
    match r {
        Ok(s) => s,
        Err(p) => match payload_to_obs(p) {
            Obs::MockPanic { msg, .. } => classify_teardown(&msg),
            Obs::UserPanic => "panic:user".into(),
            o => format!("panic:other:{o:?}"),
        },
    }
}

/// one borrow epoch: k values lent through &self; after every push all earlier references of the
/// epoch are re-read and must still designate their own, unmodified value
/// a zero-sized value with a destructor (drops are counted globally: it has no room for an id)
pub struct Zst;
pub static ZDROPS: std::sync::atomic::AtomicU32 = std::sync::atomic::AtomicU32::new(0);
impl Drop for Zst {
    fn drop(&mut self) {
        ZDROPS.fetch_add(1, std::sync::atomic::Ordering::SeqCst);
    }
}
/// a test fixture that owns a mock and verifies it explicitly in its destructor (clones are just dropped:
/// verify() on a clone is a usage error at any time)
pub struct VerifyOnDrop(pub Option<Unimock>, pub bool);
impl Drop for VerifyOnDrop {
    fn drop(&mut self) {
        if let Some(u) = self.0.take() {
            if self.1 {
                u.verify();
            } else {
                drop(u);
            }
        }
    }
}

/// a destructor that builds and drops a fresh mock with an unmet expectation (origin "userfresh")
struct FreshOnDrop;
impl Drop for FreshOnDrop {
    fn drop(&mut self) {
        let m = life_mock_with(STORED + 1); // its own stored value, not the one whose drops are compared
        drop(m);
    }
}

fn epoch(u: &Unimock, first: u32, k: usize) -> String {
    let mut vrefs: Vec<(&Val, u32)> = vec![];
    let mut trefs: Vec<(&Tok, u32)> = vec![];
    let mut srefs: Vec<(&String, u32)> = vec![];
    let mut zrefs: Vec<&Zst> = vec![];
    for x in 0..k as u32 {
        let id = first + x;
        match id % 4 {
            0 => vrefs.push((u.make_ref(Val::new(id)), id)),
            1 => trefs.push((u.make_ref(Tok::new(id)), id)),
            2 => srefs.push((u.make_ref(format!("s{id}")), id)),
            _ => zrefs.push(u.make_ref(Zst)),
        }
        for (r, id) in &vrefs {
            if r.id != *id || r.gen != 0 {
                return format!("refs-corrupt: value {id} reads as {}", r.id);
            }
        }
        for (r, id) in &trefs {
            if r.id != *id {
                return format!("refs-corrupt: token {id} reads as {}", r.id);
            }
        }
        for (r, id) in &srefs {
            if **r != format!("s{id}") {
                return format!("refs-corrupt: string {id} reads as {r}");
            }
        }
        // distinct addresses
        let mut addrs: Vec<usize> = vrefs.iter().map(|(r, _)| *r as *const Val as usize).collect();
        addrs.extend(trefs.iter().map(|(r, _)| *r as *const Tok as usize));
        let n = addrs.len();
        addrs.sort();
        addrs.dedup();
        if addrs.len() != n {
            return "refs-corrupt: two references share an address".into();
        }
    }
    "refs".into()
}

/// Strings are not drop-counted; only Val/Tok ids are compared with the model's `dropped`.
/// which kind of value an id was lent as in the current behaviour: 'v' Val, 't' Tok, 's' String, 'z' Zst
type Kinds = std::collections::HashMap<u32, char>;
fn kind_by_id(id: u32) -> char {
    ['v', 't', 's', 'z'][(id % 4) as usize]
}
fn counted(kinds: &Kinds, id: u32) -> bool {
    id == STORED || matches!(kinds.get(&id), Some('v') | Some('t'))
}
fn is_zst(kinds: &Kinds, id: u32) -> bool {
    matches!(kinds.get(&id), Some('z'))
}

pub struct LifeRunner {
    worker: Worker,
    pub behaviours: u64,
    pub steps: u64,
    pub divergences: u64,
    pub divs: Vec<Value>,
    pub samples: Vec<Value>,
    pub op_counts: std::collections::BTreeMap<String, u64>,
    pub res_counts: std::collections::BTreeMap<String, u64>,
}

impl LifeRunner {
    pub fn new() -> Self {
        LifeRunner {
            worker: Worker::new(),
            behaviours: 0,
            steps: 0,
            divergences: 0,
            divs: vec![],
            samples: vec![],
            op_counts: Default::default(),
            res_counts: Default::default(),
        }
    }

    fn on<R: Send + 'static>(&self, t: usize, f: impl FnOnce() -> R + Send + 'static) -> R {
        if t == 0 {
            f()
        } else {
            self.worker.run(f)
        }
    }

    pub fn replay(&mut self, beh: &LBeh, max_inst: usize, max_vals: u32) {
        self.behaviours += 1;
        reset_id(STORED);
        for v in 0..=max_vals + 2 {
            reset_id(LENT_BASE + v);
        }
        let mut slots: Vec<Option<Unimock>> = (0..=max_inst).map(|_| None).collect();
        slots[0] = Some(life_mock());
        let mut gone: std::collections::BTreeSet<u32> = Default::default();
        // values make_mut kept although it may release them: id -> owning instance; zero-sized ones only by number
        let mut owed: std::collections::BTreeMap<u32, usize> = Default::default();
        let mut owed_z: std::collections::BTreeMap<usize, u32> = Default::default();
        let mut ok = true;
        let mut zseen = ZDROPS.load(std::sync::atomic::Ordering::SeqCst);
        let mut kinds: Kinds = Default::default();
        for (si, st) in beh.steps.iter().enumerate() {
            self.steps += 1;
            *self.op_counts.entry(st.ev.op.clone()).or_default() += 1;
            *self.res_counts.entry(st.res.clone()).or_default() += 1;
            let ev = st.ev.clone();
            let t = ev.t;
            let i = ev.i;
            let res: String = match ev.op.as_str() {
                "clone" => {
                    let u = slots[i].take().unwrap();
                    let (u, c) = self.on(t, move || {
                        let c = u.clone();
                        (u, c)
                    });
                    slots[i] = Some(u);
                    slots[st.new] = Some(c);
                    "silent".into()
                }
                "move" => "silent".into(),
                "delegate" | "hit" | "err" => {
                    let u = slots[i].take().unwrap();
                    let op = ev.op.clone();
                    let (u, r) = self.on(t, move || {
                        let r = catch_unwind(AssertUnwindSafe(|| match op.as_str() {
                            "delegate" => format!("ret:{}", if u.d0(0).id == DFLT_ID { "default".to_string() } else { "?".to_string() }),
                            "hit" => format!("ret:{}", u.r0(0).id),
                            _ => format!("ret:{}", u.r2(0).id),
                        }));
                        let _ = take_log();
                        (u, r)
                    });
                    slots[i] = Some(u);
                    match r {
                        Ok(s) => s,
                        Err(p) => match payload_to_obs(p) {
                            Obs::MockPanic { .. } => "panic:mock".into(),
                            o => format!("panic:other:{o:?}"),
                        },
                    }
                }
                "pinlend" => {
                    // a provided method with a pinned receiver; the value ends up in the helper's chain
                    let mut u = slots[i].take().unwrap();
                    let a = st.new as u8;
                    kinds.insert(LENT_BASE + st.new as u32, 'v');
                    let (u, r) = self.on(t, move || {
                        let r = catch_unwind(AssertUnwindSafe(|| std::pin::Pin::new(&mut u).dp(a).id));
                        (u, r)
                    });
                    slots[i] = Some(u);
                    match r {
                        Ok(0) => "ret:lent".into(),
                        Ok(x) => format!("ret:{x}"),
                        Err(p) => obs_res(Err(p)),
                    }
                }
                "pinlendclone" => {
                    let mut u = slots[i].take().unwrap();
                    let (u, r) = self.on(t, move || {
                        let r = catch_unwind(AssertUnwindSafe(|| std::pin::Pin::new(&mut u).dp(200).id));
                        (u, r)
                    });
                    slots[i] = Some(u);
                    match r {
                        Ok(0) => "ret:lent".into(),
                        Ok(x) => format!("ret:{x}"),
                        Err(p) => obs_res(Err(p)),
                    }
                }
                "lend" => {
                    let u = slots[i].take().unwrap();
                    let c = slots[ev.j].take().unwrap();
                    let u = self.on(t, move || {
                        let _r: &Unimock = u.make_ref(c);
                        u
                    });
                    slots[i] = Some(u);
                    "silent".into()
                }
                "make_ref" => {
                    let u = slots[i].take().unwrap();
                    let first = LENT_BASE + st.new as u32;
                    let k = ev.k;
                    for x in 0..k as u32 {
                        kinds.insert(first + x, kind_by_id(first + x));
                    }
                    let (u, r) = self.on(t, move || {
                        let r = epoch(&u, first, k);
                        (u, r)
                    });
                    slots[i] = Some(u);
                    r
                }
                "make_mut" => {
                    let mut u = slots[i].take().unwrap();
                    let id = LENT_BASE + st.new as u32;
                    kinds.insert(id, kind_by_id(id));
                    let (u, r) = self.on(t, move || {
                        let ok = match id % 4 {
                            0 => u.make_mut(Val::new(id)).id == id,
                            1 => u.make_mut(Tok::new(id)).id == id,
                            2 => {
                                let s = u.make_mut(format!("s{id}"));
                                s.push('x');
                                s.ends_with('x')
                            }
                            _ => {
                                let _z: &mut Zst = u.make_mut(Zst);
                                true
                            }
                        };
                        (u, if ok { "mutref".to_string() } else { "mutref-corrupt".to_string() })
                    });
                    slots[i] = Some(u);
                    r
                }
                "drop" => {
                    let u = slots[i].take().unwrap();
                    obs_res(self.on(t, move || catch_unwind(AssertUnwindSafe(move || {
                        drop(u);
                        "silent".to_string()
                    }))))
                }
                "verify" => {
                    let u = slots[i].take().unwrap();
                    obs_res(self.on(t, move || catch_unwind(AssertUnwindSafe(move || {
                        u.verify();
                        "silent".to_string()
                    }))))
                }
                "report" => {
                    let u = slots[i].take().unwrap();
                    obs_res(self.on(t, move || catch_unwind(AssertUnwindSafe(move || {
                        use std::process::Termination;
                        let code = format!("{:?}", u.report());
                        if code.contains("(0)") {
                            "code:SUCCESS".to_string()
                        } else {
                            "code:FAILURE".to_string()
                        }
                    }))))
                }
                "noverify" => {
                    let u = slots[i].take().unwrap();
                    let r = self.on(t, move || catch_unwind(AssertUnwindSafe(move || u.no_verify_in_drop())));
                    match r {
                        Ok(u) => {
                            slots[i] = Some(u);
                            "silent".into()
                        }
                        Err(p) => obs_res(Err(p)),
                    }
                }
                "unwind" => {
                    // instance i is a local of a frame that panics on thread t
                    let local = if i < slots.len() { slots[i].take() } else { None };
                    let e = ev.j;
                    let origin = ev.origin.clone();
                    let other = if e != i { slots[e].take() } else { None };
                    let wrap = self.behaviours % 5;
                    let is_original = i == 0;
                    let (other, r) = self.on(t, move || {
                        let other_ref = &other;
                        let r = catch_unwind(AssertUnwindSafe(move || {
                            // the local that the unwinding drops, behind the wrappers users put mocks in
                            let local_plain;
                            let local_box;
                            let local_rc;
                            let local_arc;
                            let local_guard;
                            let lref: Option<&Unimock> = match (local, wrap) {
                                (None, _) => None,
                                (Some(l), 0) => {
                                    local_plain = l;
                                    Some(&local_plain)
                                }
                                (Some(l), 1) => {
                                    local_box = Box::new(l);
                                    Some(&*local_box)
                                }
                                (Some(l), 2) => {
                                    local_rc = std::rc::Rc::new(l);
                                    Some(&*local_rc)
                                }
                                (Some(l), 3) => {
                                    local_arc = std::sync::Arc::new(l);
                                    Some(&*local_arc)
                                }
                                (Some(l), _) => {
                                    // a fixture whose destructor verifies the original explicitly (verify() consumes
                                    // and drops it) -- during the unwinding that is as silent as the plain drop
                                    local_guard = VerifyOnDrop(Some(l), is_original);
                                    local_guard.0.as_ref()
                                }
                            };
                            let target: &Unimock = match other_ref {
                                Some(o) => o,
                                None => lref.expect("harness: panic origin without an instance"),
                            };
                            match origin.as_str() {
                                "mock" => {
                                    let _ = target.r2(0);
                                }
                                "explicit" => {
                                    let _ = target.pd(PD(0));
                                }
                                "argdebug" => {
                                    let _ = target.pd(PD(7));
                                }
                                "real" => {
                                    set_script(vec![], true);
                                    let _ = target.r1(0);
                                }
                                "default" => {
                                    set_script(vec![], true);
                                    let _ = target.d0(0);
                                }
                                "matcher" => {
                                    let _ = target.r0(7);
                                }
                                "clone" => {
                                    CLONE_PANIC.with(|c| c.set(STORED));
                                    let _ = target.r0(0);
                                }
                                "userfresh" => {
                                    let _cleanup = FreshOnDrop;
                                    std::panic::panic_any(UserPanic(0))
                                }
                                _ => std::panic::panic_any(UserPanic(0)),
                            }
                        }));
                        let _ = take_script();
                        let _ = take_log();
                        CLONE_PANIC.with(|c| c.set(0));
                        (other, r)
                    });
                    if let Some(o) = other {
                        slots[e] = Some(o);
                    }
                    match r {
                        Ok(()) => "no-panic".into(),
                        Err(p) => match payload_to_obs(p) {
                            Obs::UserPanic if ev.origin != "mock" && ev.origin != "explicit" => "silent".into(),
                            Obs::MockPanic { class, .. } if ev.origin == "mock" && class == "CannotUnmock" => "silent".into(),
                            Obs::MockPanic { class, .. } if ev.origin == "explicit" && class == "ExplicitPanic" => "silent".into(),
                            Obs::MockPanic { msg, .. } => classify_teardown(&msg),
                            o => format!("panic:other:{o:?}"),
                        },
                    }
                }
                o => panic!("harness: unknown lifecycle op {o}"),
            };
            // drops observed at this step
            let mut now: Vec<u32> = vec![];
            let mut twice = vec![];
            let mut ids: Vec<u32> = vec![STORED];
            ids.extend((0..=max_vals + 2).map(|v| LENT_BASE + v));
            for id in ids {
                if !counted(&kinds, id) {
                    continue;
                }
                let d = drops0(id);
                if d > 1 {
                    twice.push(id);
                }
                if d >= 1 && !gone.contains(&id) {
                    gone.insert(id);
                    now.push(id);
                }
            }
            let mut exp: Vec<u32> = st
                .dropped
                .iter()
                .map(|v| if *v == STORED { STORED } else { LENT_BASE + *v })
                .filter(|id| counted(&kinds, *id))
                .collect();
            // make_mut may, but need not, release what its instance lent earlier: values it keeps are owed until a
            // later make_mut of the same instance or the end of that instance, whichever releases them
            if ev.op == "make_mut" {
                // instances parked in this instance's chain go the way of the other earlier values: what they still
                // owe is owed by this instance from now on
                for r in &st.rel {
                    for (_, o) in owed.iter_mut() {
                        if o == r {
                            *o = ev.i;
                        }
                    }
                    if let Some(z) = owed_z.remove(r) {
                        *owed_z.entry(ev.i).or_insert(0) += z;
                    }
                }
                let kept: Vec<u32> = exp.iter().filter(|id| !now.contains(id)).cloned().collect();
                for id in kept {
                    owed.insert(id, ev.i);
                    exp.retain(|x| *x != id);
                }
            }
            let paid: Vec<u32> = now
                .iter()
                .filter(|id| !exp.contains(id) && owed.get(id).map_or(false, |o| (ev.op == "make_mut" && *o == ev.i) || st.rel.contains(o)))
                .cloned()
                .collect();
            for id in &paid {
                owed.remove(id);
                exp.push(*id);
            }
            let overdue: Vec<u32> = owed.iter().filter(|(_, o)| ev.op != "make_mut" && st.rel.contains(o)).map(|(id, _)| *id).collect();
            exp.extend(overdue.iter().cloned());      // must have been released with their instance
            for id in &overdue {
                owed.remove(id);
            }
            exp.sort();
            exp.dedup();
            now.sort();
            // zero-sized lent values: only their number can be observed
            let mut zexp = st.dropped.iter().filter(|v| **v != STORED && is_zst(&kinds, LENT_BASE + **v)).count() as u32;
            let znow = ZDROPS.load(std::sync::atomic::Ordering::SeqCst);
            let zdelta = znow - zseen;
            zseen = znow;
            if ev.op == "make_mut" {
                let mine = owed_z.remove(&ev.i).unwrap_or(0);
                if zdelta < zexp + mine {
                    owed_z.insert(ev.i, zexp + mine - zdelta.min(zexp + mine));
                    zexp = zdelta.min(zexp + mine);
                } else {
                    zexp += mine;
                }
            }
            if ev.op != "make_mut" {
                for o in &st.rel {
                    zexp += owed_z.remove(o).unwrap_or(0);
                }
            }
            let res_ok = res == st.res || st.alt.as_deref() == Some(res.as_str());
            if zdelta != zexp && res_ok && now == exp {
                ok = false;
                self.divergences += 1;
                if self.divs.len() < 20 {
                    self.divs.push(json!({"what": "zero-sized lent values destroyed by this operation", "step": si + 1, "expected": {"zst_drops": zexp}, "observed": {"zst_drops": zdelta},
                        "beh": beh, "in_scope": true}));
                }
                break;
            }
            if !res_ok || now != exp || !twice.is_empty() {
                ok = false;
                self.divergences += 1;
                if self.divs.len() < 20 {
                    self.divs.push(json!({"what": if !res_ok { "lifecycle outcome" } else if !twice.is_empty() { "value dropped twice" } else { "values destroyed by this operation" },
                        "step": si + 1, "expected": {"res": st.res, "dropped": exp}, "observed": {"res": res, "dropped": now, "twice": twice},
                        "beh": beh, "in_scope": true}));
                }
                break;
            }
        }
        // clean up whatever is left without verifying
        let rest: Vec<Unimock> = slots.iter_mut().filter_map(|s| s.take()).collect();
        let _ = catch_unwind(AssertUnwindSafe(move || {
            let mut clones = vec![];
            for u in rest {
                match catch_unwind(AssertUnwindSafe(move || u.no_verify_in_drop())) {
                    Ok(u) => clones.push(u),
                    Err(_) => {}
                }
            }
            drop(clones);
        }));
        if ok && self.samples.len() < 3 && beh.steps.len() >= 4 {
            self.samples.push(json!(beh));
        }
    }
}

/// vh life <behaviours-file> <result.json> --skip N --progress <file> --max-inst K --max-vals V
pub fn run_life(path: &str, out_path: &str, skip: u64, progress: &str, max_inst: usize, max_vals: u32) -> i32 {
    let f = std::fs::File::open(path).expect("behaviour file");
    let rd = std::io::BufReader::new(f);
    let mut lr = LifeRunner::new();
    let mut idx = 0u64;
    let mut prog = std::fs::OpenOptions::new().create(true).write(true).truncate(true).open(progress).expect("progress file");
    let mut bad = 0;
    for line in rd.lines() {
        let line = line.unwrap();
        let doc = match crate::replay::extract(line.trim_end()) {
            Some(d) => d,
            None => continue,
        };
        idx += 1;
        if idx <= skip {
            continue;
        }
        if idx % 64 == 0 || true {
            use std::io::Seek;
            let _ = prog.seek(std::io::SeekFrom::Start(0));
            let _ = write!(prog, "{idx:012}");
            let _ = prog.flush();
        }
        match serde_json::from_str::<LBeh>(&doc) {
            Ok(b) => lr.replay(&b, max_inst, max_vals),
            Err(e) => {
                bad += 1;
                if bad < 4 {
                    eprintln!("harness: cannot parse lifecycle behaviour: {e}");
                }
            }
        }
    }
    let result = json!({"stats": {"behaviours": lr.behaviours, "steps": lr.steps, "divergences": lr.divergences, "ops": lr.op_counts, "outcomes": lr.res_counts},
        "bad_lines": bad, "divergences": lr.divs, "samples": lr.samples, "last_index": idx});
    std::fs::write(out_path, serde_json::to_string_pretty(&result).unwrap()).unwrap();
    if bad > 0 {
        2
    } else if lr.divergences > 0 {
        1
    } else {
        0
    }
}
