-------------------------------- MODULE Conc ---------------------------------
(***************************************************************************)
(* Concurrent callers of one mock: every call is split at the shared-      *)
(* memory operations the runtime performs (src/eval.rs, src/counter.rs,    *)
(* src/state.rs, src/output/owning.rs, src/lib.rs induce_panic):           *)
(*    LP-slot  next_ordered_call_index.fetch_add    (ordered methods)      *)
(*    LP-pos   call_counter.fetch_add               (a pattern matched)    *)
(*    LP-take  take() under the single-use slot's lock                     *)
(*    LP-err   push under the panic_reasons lock, then the call panics     *)
(*                                                                         *)
(* The mock is fixed (harness/src/conc.rs builds the same one):            *)
(*   r0: unordered  each_call(_) returns 111 x1, then 112 x1, then 113     *)
(*   r1: ordered    next_call(_) returns 211 ; next_call(_) returns 311    *)
(*   t0: unordered  some_call(_) returns Tok 411   (single-use)            *)
(*   r2: not mentioned (a call is a recorded error)                        *)
(* Call kinds: "any" = r0, "ord" = r1, "once" = t0, "unm" = r2.            *)
(***************************************************************************)
EXTENDS Naturals, Sequences, FiniteSets, TLC

CONSTANTS Thread, CounterImpl     \* CounterImpl: "fetch_add" (the code) | "load_store" (sensitivity runs only)

VARIABLES cnt,       \* [ "any" | "ordp1" | "ordp2" | "once" -> matches so far ]
          ord,       \* ordered calls made so far
          slotFull,  \* the single-use value is still there
          reasons,   \* sequence of recorded error classes
          pc,        \* [Thread -> "idle" | "slot" | "slotStore" | "pos" | "posStore" | "take" | "err" | "ret" | "errdone"]
          kind,      \* [Thread -> kind of the call in progress]
          tmp,       \* [Thread -> value read by the load half of a split read-modify-write]
          got        \* [Thread -> [slot, pos, key, took, class]] what the call in progress obtained
shared == <<cnt, ord, slotFull, reasons>>
cvars == <<cnt, ord, slotFull, reasons, pc, kind, tmp, got>>

NSlots == 2
Kinds == {"any", "ord", "once", "unm"}
Keys == {"any", "ordp1", "ordp2", "once"}
NoGot == [slot |-> 99, pos |-> 99, key |-> "none", took |-> FALSE, class |-> "none"]

CInit == /\ cnt = [k \in Keys |-> 0] /\ ord = 0 /\ slotFull = TRUE /\ reasons = <<>>
         /\ pc = [t \in Thread |-> "idle"] /\ kind = [t \in Thread |-> "none"]
         /\ tmp = [t \in Thread |-> 0] /\ got = [t \in Thread |-> NoGot]

\* a call begins: the method table lookup and the matcher evaluation touch no shared mutable state
Begin(t, k) ==
  /\ pc[t] = "idle"
  /\ kind' = [kind EXCEPT ![t] = k]
  /\ got' = [got EXCEPT ![t] = [NoGot EXCEPT !.key = IF k = "ord" THEN "none" ELSE k,
                                             !.class = IF k = "unm" THEN "NoMockImplementation" ELSE "none"]]
  /\ pc' = [pc EXCEPT ![t] = CASE k = "ord" -> "slot" [] k = "unm" -> "err" [] OTHER -> "pos"]
  /\ UNCHANGED <<cnt, ord, slotFull, reasons, tmp>>

OrdKey(s) == IF s = 0 THEN "ordp1" ELSE "ordp2"
AfterSlot(t, s) ==
  /\ got' = [got EXCEPT ![t].slot = s, ![t].key = IF s < NSlots THEN OrdKey(s) ELSE "none",
                        ![t].class = IF s < NSlots THEN "none" ELSE "CallOrderNotMatched"]
  /\ pc' = [pc EXCEPT ![t] = IF s < NSlots THEN "pos" ELSE "err"]
\* LP-slot
Slot(t) ==
  /\ pc[t] = "slot"
  /\ IF CounterImpl = "fetch_add"
     THEN /\ ord' = ord + 1 /\ AfterSlot(t, ord) /\ UNCHANGED tmp
     ELSE /\ tmp' = [tmp EXCEPT ![t] = ord] /\ pc' = [pc EXCEPT ![t] = "slotStore"] /\ UNCHANGED <<ord, got>>
  /\ UNCHANGED <<cnt, slotFull, reasons, kind>>
SlotStore(t) ==
  /\ pc[t] = "slotStore" /\ ord' = tmp[t] + 1 /\ AfterSlot(t, tmp[t])
  /\ UNCHANGED <<cnt, slotFull, reasons, kind, tmp>>

AfterPos(t, p) ==
  /\ got' = [got EXCEPT ![t].pos = p]
  /\ pc' = [pc EXCEPT ![t] = IF kind[t] = "once" THEN "take" ELSE "ret"]
\* LP-pos
Pos(t) ==
  /\ pc[t] = "pos"
  /\ LET k == got[t].key IN
     IF CounterImpl = "fetch_add"
     THEN /\ cnt' = [cnt EXCEPT ![k] = @ + 1] /\ AfterPos(t, cnt[k]) /\ UNCHANGED tmp
     ELSE /\ tmp' = [tmp EXCEPT ![t] = cnt[k]] /\ pc' = [pc EXCEPT ![t] = "posStore"] /\ UNCHANGED <<cnt, got>>
  /\ UNCHANGED <<ord, slotFull, reasons, kind>>
PosStore(t) ==
  /\ pc[t] = "posStore" /\ cnt' = [cnt EXCEPT ![got[t].key] = tmp[t] + 1] /\ AfterPos(t, tmp[t])
  /\ UNCHANGED <<ord, slotFull, reasons, kind, tmp>>

\* LP-take: under the slot's lock
Take(t) ==
  /\ pc[t] = "take"
  /\ IF slotFull
     THEN /\ slotFull' = FALSE /\ got' = [got EXCEPT ![t].took = TRUE] /\ pc' = [pc EXCEPT ![t] = "ret"]
     ELSE /\ got' = [got EXCEPT ![t].class = "CannotReturnValueMoreThanOnce"] /\ pc' = [pc EXCEPT ![t] = "err"] /\ UNCHANGED slotFull
  /\ UNCHANGED <<cnt, ord, reasons, kind, tmp>>
\* LP-err: under the reasons lock; afterwards the call panics
ErrStep(t) ==
  /\ pc[t] = "err" /\ reasons' = Append(reasons, got[t].class)
  /\ pc' = [pc EXCEPT ![t] = "errdone"]
  /\ UNCHANGED <<cnt, ord, slotFull, kind, tmp, got>>

Internal(t) == Slot(t) \/ SlotStore(t) \/ Pos(t) \/ PosStore(t) \/ Take(t) \/ ErrStep(t)

\* what the caller observes when the call returns / panics
RespAny(p) == IF p = 0 THEN 111 ELSE IF p = 1 THEN 112 ELSE 113
Outcome(t) ==
  IF pc[t] = "errdone" THEN [k |-> "panic", class |-> got[t].class, id |-> 0]
  ELSE CASE kind[t] = "any"  -> [k |-> "ret", class |-> "", id |-> RespAny(got[t].pos)]
         [] kind[t] = "ord"  -> [k |-> "ret", class |-> "", id |-> IF got[t].slot = 0 THEN 211 ELSE 311]
         [] OTHER            -> [k |-> "ret", class |-> "", id |-> 411]
End(t) ==
  /\ pc[t] \in {"ret", "errdone"}
  /\ pc' = [pc EXCEPT ![t] = "idle"] /\ kind' = [kind EXCEPT ![t] = "none"] /\ got' = [got EXCEPT ![t] = NoGot]
  /\ UNCHANGED <<cnt, ord, slotFull, reasons, tmp>>

\* verdict of verify() on the original once every caller is done (teardown + FnMocker::verify)
UnmetLines ==
  { x \in { <<"any", cnt["any"] >= 3>>, <<"ordp1", cnt["ordp1"] = 1>>, <<"ordp2", cnt["ordp2"] = 1>>, <<"once", cnt["once"] = 1>> } : ~x[2] }
NeverCalled == { m \in {"r0", "r1", "t0"} :
                   CASE m = "r0" -> cnt["any"] = 0 [] m = "r1" -> cnt["ordp1"] + cnt["ordp2"] = 0 [] OTHER -> cnt["once"] = 0 }
Verdict == IF Len(reasons) > 0 THEN [k |-> "fail", reasons |-> Len(reasons), unmet |-> {}, never |-> {}]
           ELSE IF UnmetLines = {} /\ NeverCalled = {} THEN [k |-> "silent", reasons |-> 0, unmet |-> {}, never |-> {}]
           ELSE [k |-> "fail", reasons |-> 0, unmet |-> { x[1] : x \in UnmetLines }, never |-> NeverCalled]
=============================================================================
