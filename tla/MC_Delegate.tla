----------------------------- MODULE MC_Delegate ------------------------------
EXTENDS Shapes, Json
CONSTANTS EmitOn
VARIABLES cs, done
Init == cs \in DelegateShapes /\ done = FALSE
Next == ~done /\ done' = TRUE /\ UNCHANGED cs
Spec == Init /\ [][Next]_<<cs, done>>
Emit == (EmitOn /\ done) => PrintT(<<"CASE", ToJson([shape |-> cs, exp |-> DelegateExpected(cs)])>>)
=============================================================================
