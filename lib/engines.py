"""Property engines: how each property's check is decided (DESIGN.md section 6)."""
import json, os, sys, time
import vf
from vf import ToolError, log

LEVEL_MC = "model_checking"


def match_known(pid, div):
    """Return the known-finding entry that this divergence reproduces, if any (open entries only)."""
    for k in vf.load_known():
        if k.get("status") != "open" or pid not in k.get("properties", [k.get("property")]):
            continue
        m = k.get("match", {})
        beh = div.get("beh", {})
        step = beh.get("steps", [{}])[max(div.get("step", 1) - 1, 0)] if beh.get("steps") else {}
        ok = True
        if "call_method_in" in m and step.get("m") not in m["call_method_in"]:
            ok = False
        if "what_contains" in m and m["what_contains"] not in div.get("what", ""):
            ok = False
        if "expected_contains" in m and m["expected_contains"] not in json.dumps(div.get("expected")):
            ok = False
        if "observed_contains" in m and m["observed_contains"] not in json.dumps(div.get("observed")):
            ok = False
        if ok:
            return k
    return None


def report(pid, divs, total_divergences):
    """Print VIOLATION / KNOWN-FINDING lines. Returns number of violations (not known)."""
    viol = 0
    known_seen = {}
    n = 0
    for d in divs:
        if not d.get("in_scope", True):
            continue
        k = match_known(pid, d)
        if k:
            known_seen.setdefault(k["id"], k)
            continue
        n += 1
        path = vf.write_replay(pid, n, d)
        print("VIOLATION property=%s replay=%s" % (pid, path), flush=True)
        log("  %s (step %s): expected %s observed %s" % (d.get("what"), d.get("step"), json.dumps(d.get("expected"))[:300], json.dumps(d.get("observed"))[:300]))
        viol += 1
    for k in known_seen.values():
        print("KNOWN-FINDING: property=%s %s" % (pid, k["what"]), flush=True)
    return viol, len(known_seen)


def run_mock(pid, tier, t0, plans, assumptions, rule, level_note=None):
    entries = plans[pid][tier]
    cov = {"states": 0, "transitions": 0, "traces_validated_against_impl": 0, "samples": [], "instances": [],
           "evaluations": 0, "distinct_nontrivial": 0, "rule": rule, "exhaustive": True}
    all_divs = []
    total_div = 0
    drift = []
    for (name, inst, hopts, sim) in entries:
        args = ["replay", "{result}", "--seed", str(vf.seed())]
        for k, v in hopts.items():
            if k == "clones" and v:
                args += ["--clones", str(v)]
            if k == "vias":
                args += ["--vias", v]
            if k == "twin" and v:
                args += ["--twin"]
        workers = 8
        r, res, rc = vf.run_tlc_replay(inst, name, args, workers=workers, timeout=3000 if tier == "thorough" else 900, simulate=sim)
        if r.get("violated"):
            # the specification itself violates one of its property-shaped invariants: the model is wrong
            raise ToolError("specification instance %s violates invariant %s (model error, not a verdict about the code)" % (name, r["violated"]))
        st = res["stats"]
        if sim is None:
            cov["states"] += r["distinct"]
            cov["transitions"] += r["generated"]
        else:
            cov["exhaustive"] = False
            cov["states"] += r["generated"]
            cov["transitions"] += r["generated"]
        cov["traces_validated_against_impl"] += st["behaviours"]
        cov["evaluations"] += st["behaviours"]
        cov["distinct_nontrivial"] += st.get("with_calls", 0)
        cov["instances"].append({"name": name, "mode": "simulate" if sim else "exhaustive", "tlc_distinct_states": r["distinct"],
                                 "tlc_states_generated": r["generated"], "tlc_wall_s": r["wall_s"], "replay": st,
                                 "routed_over_clones": res.get("routed_over_clones", 0),
                                 "constants": {k: v for k, v in inst["constants"].items() if k in ("LeafFam", "MaxLeaves", "MaxCalls", "Arg", "ScriptFam", "StrictFam", "Vias", "UpFam")}})
        if len(cov["samples"]) < 3:
            cov["samples"] += res.get("samples", [])[:2]
        all_divs += res["divergences"]
        total_div += st["divergences"]
        drift += [d for d in res["divergences"] if not d.get("in_scope", True)][:3]
        if st["behaviours"] == 0:
            raise ToolError("instance %s emitted no behaviours" % name)
    viol, known = report(pid, all_divs, total_div)
    if total_div > 0 and viol == 0 and known == 0:
        raise ToolError("divergences counted but none recorded")
    cov["divergent_behaviours"] = total_div
    cov["drift"] = [{"what": d["what"], "expected": d["expected"], "observed": d["observed"]} for d in drift]
    cov["checker_cmd"] = "tlc MC_Mock.tla (instances above) | harness vh replay"
    vf.write_evidence(pid, tier, LEVEL_MC, cov, assumptions, time.time() - t0, viol)
    return 1 if viol else 0


LIFE_BASE = {"MaxInst": 2, "Thread": "<-T2", "Creator": 0, "MaxSteps": 4, "MaxVals": 4, "GuardPos": '"early"', "Ops": "<-AllOps", "EmitOn": True}
LIFE_INV = ["NoDoublePanic", "ClonesNeverVerify", "VerifyPanicsIff", "ReportAgrees", "VerifiedAtMostOnce", "OrigGoneAfterVerify",
            "ChainsDisjoint", "LiveValsNotGone", "StoredWhileShared"]


def life_inst(**kw):
    c = dict(LIFE_BASE)
    c.update(kw)
    return {"module": "MC_Life", "constants": c, "invariants": LIFE_INV + ["Emit"]}


LIFE_PLANS = {
    "C09": {"quick": [("c09q", life_inst(Ops="<-C09Ops", MaxSteps=4), None)],
            "thorough": [("c09t", life_inst(Ops="<-C09Ops", MaxSteps=5), None),
                         ("c09t3", life_inst(Ops="<-C09Ops", MaxSteps=8, MaxInst=3), {"num": 300000, "depth": 9})]},
    "C11": {"quick": [("c11q", life_inst(Ops="<-C11Ops", MaxSteps=4), None)],
            "thorough": [("c11t", life_inst(Ops="<-C11Ops", MaxSteps=5), None),
                         ("c11t3", life_inst(Ops="<-C11Ops", MaxSteps=8, MaxInst=3), {"num": 300000, "depth": 9})]},
    "C13": {"quick": [("c13q", life_inst(Ops="<-C13Ops", MaxSteps=5, MaxVals=6), None)],
            "thorough": [("c13t", life_inst(Ops="<-C13Ops", MaxSteps=6, MaxVals=8), None),
                         ("c13t3", life_inst(Ops="<-C13Ops", MaxSteps=10, MaxInst=3, MaxVals=12), {"num": 300000, "depth": 11})]},
}


def life_sensitivity():
    """The model must notice a misplaced unwinding guard (otherwise NoDoublePanic is vacuous)."""
    out = {}
    for pos in ("afterClone", "afterThread"):
        inst = life_inst(GuardPos='"%s"' % pos, EmitOn=False, MaxSteps=4)
        r = vf.run_tlc(inst, "life_sens_" + pos, workers=4, timeout=600)
        out[pos] = r["violated"]
        if r["violated"] != "NoDoublePanic":
            raise ToolError("sensitivity run GuardPos=%s did not violate NoDoublePanic (%s): the invariant is vacuous" % (pos, r["violated"]))
    return out


def run_life(pid, tier, t0, rule, assumptions, extra_runs=None):
    import subprocess
    cov = {"states": 0, "transitions": 0, "traces_validated_against_impl": 0, "samples": [], "instances": [],
           "evaluations": 0, "distinct_nontrivial": 0, "rule": rule, "exhaustive": True}
    all_divs = []
    for (name, inst, sim) in LIFE_PLANS[pid][tier]:
        r, outp, d = vf.run_tlc_to_file(inst, name, workers=8, timeout=3000 if tier == "thorough" else 900, simulate=sim)
        res_path = os.path.join(d, "result.json")
        prog = os.path.join(d, "progress")
        skip = 0
        merged = {"behaviours": 0, "steps": 0, "divergences": 0, "ops": {}, "outcomes": {}, "aborts": 0}
        samples = []
        while True:
            if os.path.exists(res_path):
                os.remove(res_path)
            p = subprocess.run([vf.VH, "life", outp, res_path, "--skip", str(skip), "--progress", prog,
                                "--max-inst", str(inst["constants"]["MaxInst"]), "--max-vals", str(inst["constants"]["MaxVals"])],
                               cwd=vf.VERIF, stderr=subprocess.DEVNULL)
            if p.returncode in (0, 1) and os.path.exists(res_path):
                res = json.load(open(res_path))
                for k in ("behaviours", "steps", "divergences"):
                    merged[k] += res["stats"][k]
                for k in ("ops", "outcomes"):
                    for kk, vv in res["stats"][k].items():
                        merged[k][kk] = merged[k].get(kk, 0) + vv
                all_divs += res["divergences"]
                samples += res["samples"]
                break
            if p.returncode == 2:
                raise ToolError("lifecycle harness failed on %s" % name)
            # the harness process died: a panic while unwinding aborted it (C11) -- find the behaviour
            idx = int(open(prog).read().strip() or "0")
            beh = vf.nth_replay_line(outp, idx)
            merged["aborts"] += 1
            merged["divergences"] += 1
            merged["behaviours"] += idx - skip
            all_divs.append({"what": "process aborted (signal %s): a second panic while unwinding" % (-p.returncode if p.returncode < 0 else p.returncode),
                             "step": 0, "expected": "every drop during unwinding is silent", "observed": "abort", "beh": beh, "in_scope": True, "abort": True})
            skip = idx
            if merged["aborts"] >= 8:
                break
        if sim is None:
            cov["states"] += r["distinct"]; cov["transitions"] += r["generated"]
        else:
            cov["exhaustive"] = False
            cov["states"] += r["generated"]; cov["transitions"] += r["generated"]
        cov["traces_validated_against_impl"] += merged["behaviours"]
        cov["evaluations"] += merged["behaviours"]
        cov["distinct_nontrivial"] += merged["behaviours"]
        cov["instances"].append({"name": name, "mode": "simulate" if sim else "exhaustive", "tlc_distinct_states": r["distinct"],
                                 "tlc_states_generated": r["generated"], "tlc_wall_s": r["wall_s"], "replay": merged,
                                 "constants": {k: v for k, v in inst["constants"].items()}})
        if len(cov["samples"]) < 2:
            cov["samples"] += samples[:2]
        if merged["behaviours"] == 0:
            raise ToolError("instance %s emitted no behaviours" % name)
        os.remove(outp)
    if extra_runs:
        cov.update(extra_runs())
    viol, known = report(pid, all_divs, len(all_divs))
    cov["checker_cmd"] = "tlc MC_Life.tla (instances above) > behaviours; harness vh life"
    vf.write_evidence(pid, tier, LEVEL_MC, cov, assumptions, time.time() - t0, viol)
    return 1 if viol else 0


COMMON_ASSUME = [
    "argument domain is a small finite set; matchers are total and side-effect free",
    "expectations are produced by TLC from tla/Mock.tla; the harness only compares observables (return ids, panic classes, verification lines, drop counters)",
    "bounds as listed per instance; nothing is claimed beyond them",
]

RULES = {
    "C01": "TLC enumerates every configuration (<= MaxLeaves leaves from LeafFam: every predicate subset of Arg, exhausted/over-matched chains, stub and single-clause forms, both strict and partial) x every call history up to MaxCalls; each complete behaviour is replayed on the real mock; non-trivial = contains at least one call",
    "C02": "every well-typed quantifier chain of the family (segments x response kinds x once/n_times/at_least/open) x forms x histories of matching and non-matching calls up to beyond the chain's end; replayed on original and routed over clones",
    "C03": "clause sets with exact / at-least / trailing-then expectations x histories bringing counts below, at and above every bound; final verification through drop, verify() and report() in rotation",
    "C04": "ordered clause sequences over several methods with counts 0..3 and response chains inside a slot range, interleaved with an unordered bystander; from every accepted prefix every possible next call",
    "C18": "configurations x admissible clause reorderings (chosen by TLC, Assemble.tla Admissible) x histories; every behaviour is replayed in the reordered listing, a second time with calls routed over clones, and a third time interleaved step by step on two independent mocks built from the same clauses; generic instantiations g<u8>/g<u16> are distinct methods of the model",
    "C07": "{strict, partial} x {unmentioned, mentioned-unmatched, matched} x {default, unmock, both, neither} x {any, ord} x Arg x position in short histories",
}


LIFE_ASSUME = [
    "the mock under test is fixed (one exactly-once pattern, one provided method, a partial mock); counts enter only through 'some expectation unmet'",
    "two OS threads (creator and one other); all operations on an instance run on the thread the model says it lives on",
    "a double panic is observed as death of the harness process; the aborted behaviour is identified through a progress file",
]
LIFE_RULES = {
    "C09": "all sequences of lifecycle operations up to MaxSteps over original + clones + helper clones + instances lent via make_ref, on two threads: clone, delegate, lend, move, hit, err, drop, verify(), report(), no_verify_in_drop(); every complete sequence is executed on the real library and each operation's outcome compared",
    "C11": "all sequences up to MaxSteps that include panics of six origins (user code, mock-induced error, real function, default body, matcher, return-value Clone) on either thread while an instance (original or clone; plain, Box, Rc, Arc) is dropped by the unwinding or not; live clones, foreign threads, unmet expectations included; an abort of the harness process is the violation",
    "C13": "all sequences up to MaxSteps of make_ref epochs (1-2 values of three types each, all earlier references re-read after every push), make_mut, lending of clones, delegation, drop/verify; destroyed values compared with drop counters after every operation",
}


def run_property(pid, tier, t0):
    import mockplans
    if pid in mockplans.PLANS:
        return run_mock(pid, tier, t0, mockplans.PLANS, COMMON_ASSUME, RULES.get(pid, ""))
    if pid in LIFE_PLANS:
        extra = None
        if pid == "C11":
            extra = lambda: {"sensitivity": life_sensitivity()}
        return run_life(pid, tier, t0, LIFE_RULES[pid], LIFE_ASSUME, extra)
    raise ToolError("no engine for property %s" % pid)


def replay_file(pid, path):
    doc = json.load(open(path))
    beh = doc.get("beh", doc)
    import subprocess
    res = os.path.join(vf.WORK, "replay_result.json")
    p = subprocess.run([vf.VH, "replay", res, "--raw"], input=json.dumps(beh) + "\n", text=True, cwd=vf.VERIF)
    if p.returncode == 2:
        raise ToolError("replay failed")
    r = json.load(open(res))
    for d in r["divergences"]:
        if d.get("in_scope", True):
            print("VIOLATION property=%s replay=%s" % (pid, path))
            log(json.dumps({k: d[k] for k in ("what", "step", "expected", "observed")})[:1000])
            return 1
    print("replayed without divergence")
    return 0
