------------------------------ MODULE ChainTrace -------------------------------
(***************************************************************************)
(* Trace validation of concurrent make_ref executions: `push` (a thread    *)
(* starts lending value id), `got` (make_ref returned; the reference reads *)
(* `read`), `reread` (after everybody finished: every reference of the     *)
(* thread is read again), `drops` (drop counters before / after the        *)
(* instance is dropped), `reset`.  TLC infers the try_insert steps.        *)
(***************************************************************************)
EXTENDS Chain, Json, IOUtils, SequencesExt
Rec == ndJsonDeserialize(IOEnv.TRACE)
VARIABLE l
tv == <<chvars, l>>
ASSUME TLCSet(1, 0)
IsEv(e) == l <= Len(Rec) /\ Rec[l].ev = e
Adv == l' = l + 1
TReset == IsEv("reset") /\ Adv /\ cell' = [i \in 1..MaxCells |-> 0] /\ cur' = [t \in Thread |-> 1] /\ val' = [t \in Thread |-> 0]
          /\ refs' = [t \in Thread |-> <<>>] /\ lost' = {}
          /\ lentN' = 0 /\ lpos' = [t \in Thread |-> 0] /\ lseen' = [t \in Thread |-> 0] /\ lrefs' = [t \in Thread |-> <<>>]
TPush == IsEv("push") /\ Adv /\ PushBegin(Rec[l].t, Rec[l].id)
\* make_ref returned: the push is complete and the fresh reference reads its own value
TGot == /\ IsEv("got") /\ Adv /\ LET t == Rec[l].t IN
           /\ val[t] = 0 /\ Len(refs[t]) > 0
           /\ refs[t][Len(refs[t])][1] = Rec[l].id
           /\ Reads(t, Len(refs[t])) = Rec[l].read
           /\ Rec[l].read = Rec[l].id
        /\ UNCHANGED chvars
TReread == /\ IsEv("reread") /\ Adv /\ LET t == Rec[l].t IN
              /\ Len(Rec[l].reads) = Len(refs[t])
              /\ \A k \in 1..Len(refs[t]) : Rec[l].reads[k] = Reads(t, k) /\ Rec[l].reads[k] = refs[t][k][1]
           /\ UNCHANGED chvars
\* the lending method was called / returned a reference reading `read`
TLBegin == IsEv("lbegin") /\ Adv /\ LentBegin(Rec[l].t)
TLent == /\ IsEv("lent") /\ Adv /\ LET t == Rec[l].t IN lpos[t] > 0 /\ Rec[l].read = LentAt(lpos[t]) /\ LentEnd(t)
\* after everybody finished: every reference to a lent return reads what it read when it was obtained
TLReread == /\ IsEv("lreread") /\ Adv /\ LET t == Rec[l].t IN
               /\ Len(Rec[l].reads) = Len(lrefs[t])
               /\ \A k \in 1..Len(lrefs[t]) : Rec[l].reads[k] = lrefs[t][k][2]
            /\ UNCHANGED chvars
\* lent values are destroyed exactly once, and not before the instance owning them is dropped
TDrops == /\ IsEv("drops") /\ Adv
          /\ Rec[l].before = <<>>
          /\ ToSet(Rec[l].after) = ({ cell[i] : i \in 1..MaxCells } \ {0}) \cup lost \cup (IF lentN > 0 THEN ToSet(LentIds) ELSE {})
          /\ LentExact
          /\ Rec[l].twice = <<>>
          /\ UNCHANGED chvars
TInternal == (\E t \in Thread : IF Solo(t) THEN TryInsertSolo(t) ELSE ChInternal(t)) /\ UNCHANGED l
TNext == TReset \/ TPush \/ TGot \/ TReread \/ TDrops \/ TLBegin \/ TLent \/ TLReread \/ TInternal
TSpec == (ChInit /\ l = 1) /\ [][TNext]_tv
\* The register holds the highest trace position reached.  Validation asks whether SOME behaviour of the specification
\* explains the trace: once one has consumed every event nothing else needs exploring (the constraint turns FALSE), which
\* together with TLC's depth-first state queue makes an accepted trace cost about one path; a rejected one still costs
\* the whole reachable space of its executions.
Track == IF TLCGet(1) > Len(Rec) THEN FALSE ELSE (IF l > TLCGet(1) THEN TLCSet(1, l) ELSE TRUE)
Accepted == IF TLCGet(1) = Len(Rec) + 1 THEN TRUE ELSE PrintT(<<"UNMATCHED", TLCGet(1), ToJson(Rec[TLCGet(1)])>>) /\ FALSE
T8 == 1..8
=============================================================================
