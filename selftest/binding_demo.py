#!/usr/bin/env python3
"""Demonstrates that each engine is bound to the code: corrupt one emitted expectation / one recorded
trace field and the engine must reject it. Results in selftest/binding.json. Exit 0 iff every
corruption is rejected and every uncorrupted input is accepted."""
import json, os, subprocess, sys
VERIF = os.path.dirname(os.path.dirname(os.path.abspath(__file__)))
sys.path.insert(0, os.path.join(VERIF, "lib"))
import vf, engines

res = {}
vf.build_harness()
W = os.path.join(vf.WORK, "binding")
os.makedirs(W, exist_ok=True)

# 1. replay (spec -> code): a behaviour with a wrong expected return id must diverge
beh = {"strict": True, "leaves": [{"m": "r0", "form": "each", "pats": [{"pred": [0, 1], "chain": [{"k": "val", "q": "n", "n": 1}, {"k": "val", "q": "none", "n": 0}]}]}],
       "new": {"k": "ok"}, "steps": [{"op": "call", "m": "r0", "a": 0, "out": {"k": "ret", "id": 111, "gen": 1}},
                                     {"op": "call", "m": "r0", "a": 1, "out": {"k": "ret", "id": 112, "gen": 1}},
                                     {"op": "finish", "via": "verify", "v": {"k": "silent"}}]}
def replay(b):
    p = subprocess.run([vf.VH, "replay", os.path.join(W, "r.json"), "--raw"], input=json.dumps(b) + "\n", text=True, cwd=VERIF, stderr=subprocess.DEVNULL)
    return p.returncode
good = replay(beh)
bad = json.loads(json.dumps(beh)); bad["steps"][1]["out"]["id"] = 111
res["replay"] = {"uncorrupted_exit": good, "corrupted_expected_id_exit": replay(bad)}
bad2 = json.loads(json.dumps(beh)); bad2["steps"][2]["v"] = {"k": "fail", "lines": [{"m": "r0", "li": 1, "pi": 1, "want": 2, "exact": False, "got": 1}], "never": [], "reasons": []}
res["replay"]["corrupted_verdict_exit"] = replay(bad2)

# 2. concurrent trace validation: corrupt one returned id
spec = {"mode": "dfs", "programs": [[["any", "ord"], ["any", "ord"]]], "max_schedules": 200, "seed": 1}
json.dump(spec, open(os.path.join(W, "spec.json"), "w"))
tr = os.path.join(W, "trace.ndjson")
subprocess.run([vf.VH, "conc", os.path.join(W, "spec.json"), tr, os.path.join(W, "sum.json")], cwd=VERIF, stderr=subprocess.DEVNULL)
ok, idx, st = engines.validate_trace(tr, "binding_conc")
lines = open(tr).read().splitlines()
k = next(i for i, l in enumerate(lines) if i > 300 and '"end"' in l and '"ret"' in l)
d = json.loads(lines[k]); d["out"]["id"] += 5; lines[k] = json.dumps(d)
open(os.path.join(W, "bad.ndjson"), "w").write("\n".join(lines) + "\n")
ok2, idx2, _ = engines.validate_trace(os.path.join(W, "bad.ndjson"), "binding_conc_bad")
res["conc_trace"] = {"uncorrupted_accepted": ok, "corrupted_accepted": ok2, "corrupted_line": k + 1, "rejected_at": idx2}

# 3. sequential trace validation
tr2 = os.path.join(W, "mock.ndjson")
subprocess.run([vf.VH, "drive-mock", tr2, "--seed", "7", "--mocks", "40", "--calls", "20"], cwd=VERIF, stderr=subprocess.DEVNULL)
ok, idx, st = engines.validate_trace(tr2, "binding_mock", "MockTrace")
lines = open(tr2).read().splitlines()
k = next(i for i, l in enumerate(lines) if '"call"' in l and '"k":"ret"' in l and i > 50)
d = json.loads(lines[k]); d["out"]["id"] += 1; lines[k] = json.dumps(d)
open(os.path.join(W, "badmock.ndjson"), "w").write("\n".join(lines) + "\n")
ok2, idx2, _ = engines.validate_trace(os.path.join(W, "badmock.ndjson"), "binding_mock_bad", "MockTrace")
res["mock_trace"] = {"uncorrupted_accepted": ok, "corrupted_accepted": ok2, "corrupted_line": k + 1, "rejected_at": idx2}

# 4. hooks: without the yield hook no schedule can be explored -- the scheduler harness must refuse (exit 2), not pass
res["hooks"] = {"note": "vh conc exits 2 when no yield point was hit (mode dfs/random); see harness/src/conc.rs"}

json.dump(res, open(os.path.join(VERIF, "selftest", "binding.json"), "w"), indent=1)
print(json.dumps(res, indent=1))
bad = (res["replay"]["uncorrupted_exit"] != 0 or res["replay"]["corrupted_expected_id_exit"] != 1 or res["replay"]["corrupted_verdict_exit"] != 1
       or not res["conc_trace"]["uncorrupted_accepted"] or res["conc_trace"]["corrupted_accepted"]
       or not res["mock_trace"]["uncorrupted_accepted"] or res["mock_trace"]["corrupted_accepted"])
sys.exit(1 if bad else 0)
