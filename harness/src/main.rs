mod chain;
mod classify;
#[cfg(not(feature = "nomutex"))]
mod conc;
mod drive;
#[cfg(feature = "std")]
mod life;
mod replay;
mod universe;
mod vals;

fn main() {
    let args: Vec<String> = std::env::args().collect();
    std::panic::set_hook(Box::new(|_| {}));
    let code = match args.get(1).map(|s| s.as_str()) {
        // vh replay <result.json> [--raw]   (behaviours on stdin)
        Some("replay") => {
            let out = args.get(2).expect("result path");
            let flag = |name: &str| args.iter().position(|a| a == name).and_then(|i| args.get(i + 1)).cloned();
            let opts = replay::Opts {
                raw: args.iter().any(|a| a == "--raw"),
                clones: flag("--clones").map(|v| v.parse().unwrap()).unwrap_or(0),
                seed: flag("--seed").map(|v| v.parse().unwrap()).unwrap_or(1),
                tlc_log: flag("--tlc-log"),
                twin: args.iter().any(|a| a == "--twin"),
                vias: flag("--vias").map(|v| v.split(',').map(|s| s.to_string()).collect()).unwrap_or_default(),
            };
            let stdin = std::io::stdin();
            let mut lock = stdin.lock();
            replay::run_replay(&mut lock, out, &opts)
        }
        #[cfg(not(feature = "nomutex"))]
        Some("conc") => conc::run_conc(args.get(2).expect("spec"), args.get(3).expect("trace"), args.get(4).expect("summary")),
        Some("drive-mock") => {
            let flag = |name: &str| args.iter().position(|a| a == name).and_then(|i| args.get(i + 1)).cloned();
            drive::run_drive(
                args.get(2).expect("trace path"),
                flag("--seed").map(|v| v.parse().unwrap()).unwrap_or(1),
                flag("--mocks").map(|v| v.parse().unwrap()).unwrap_or(100),
                flag("--calls").map(|v| v.parse().unwrap()).unwrap_or(20),
            )
        }
        #[cfg(feature = "std")]
        Some("life") => {
            let flag = |name: &str| args.iter().position(|a| a == name).and_then(|i| args.get(i + 1)).cloned();
            life::run_life(
                args.get(2).expect("behaviour file"),
                args.get(3).expect("result path"),
                flag("--skip").map(|v| v.parse().unwrap()).unwrap_or(0),
                &flag("--progress").unwrap_or_else(|| "/dev/null".to_string()),
                flag("--max-inst").map(|v| v.parse().unwrap()).unwrap_or(3),
                flag("--max-vals").map(|v| v.parse().unwrap()).unwrap_or(6),
            )
        }
        _ => {
            eprintln!("usage: vh replay <result.json> [--raw] < behaviours");
            2
        }
    };
    std::process::exit(code);
}
