------------------------------ MODULE MockTrace -------------------------------
(***************************************************************************)
(* Trace validation (code -> spec) for the sequential runtime: random      *)
(* drivers build larger configurations than TLC can enumerate, run long    *)
(* call histories on the real mock and log every public operation at its   *)
(* return (also on the panic path).  Each event must be a step of Mock.tla *)
(* with exactly the logged observable, and every invariant of Mock.tla is  *)
(* evaluated in every state of the trace.                                  *)
(***************************************************************************)
EXTENDS Mock, Json, IOUtils, SequencesExt

Rec == ndJsonDeserialize(IOEnv.TRACE)
VARIABLE l
tvars == <<vars, l>>
ASSUME TLCSet(1, 0)

IsEv(e) == l <= Len(Rec) /\ Rec[l].ev = e
Adv == l' = l + 1

\* JSON -> model values
PatOf(j) == [pred |-> ToSet(j.pred), chain |-> j.chain]
LeafOf(j) == [m |-> j.m, form |-> j.form, pats |-> [i \in 1..Len(j.pats) |-> PatOf(j.pats[i])]]
CfgOf(j) == [strict |-> j.strict, leaves |-> [i \in 1..Len(j.leaves) |-> LeafOf(j.leaves[i])], perm |-> <<>>]
NodeOf(j) == [m |-> j.m, a |-> j.a, sc |-> j.sc, up |-> j.up]
OutMatches(o, j) ==
  /\ o.k = j.k
  \* gen 0 = the configured value itself, anything else = some copy of it (how many hops is the library's business)
  /\ (o.k = "ret" => o.id = j.id /\ ((o.gen = 0) <=> (j.gen = 0)))
  /\ (o.k = "panic" => o.user = j.user /\ (o.user \/ o.class = j.class \/ j.class = "other"))

TNew ==
  /\ IsEv("new") /\ Adv
  /\ Construct(CfgOf(Rec[l]))
  \* any reason for which the clause list must be rejected is a correct report; "ok" only for a consistent list
  /\ LET offs == Offences(CfgOf(Rec[l]).leaves, NoMutexFor) IN
       IF offs = {} THEN Rec[l].out = "ok" ELSE Rec[l].out \in { o.k : o \in offs }
  /\ AssembleAgrees(CfgOf(Rec[l]).leaves, NoMutexFor)
TCall ==
  /\ IsEv("call") /\ Adv
  /\ Call(NodeOf(Rec[l]))
  /\ LET h == hist'[Len(hist')] IN OutMatches(h.out, Rec[l].out) /\ h.log = Rec[l].log
TVerify ==
  /\ IsEv("verify") /\ Adv
  /\ Finish(Rec[l].via)
  /\ LET v == hist'[Len(hist')].v  j == Rec[l].v IN
       /\ v.k = j.k
       /\ Len(v.reasons) = j.reasons
       /\ (j.reasons = 0 =>
             /\ { [m |-> x.m, li |-> x.li, pi |-> x.pi, want |-> x.want, exact |-> x.exact, got |-> x.got] : x \in v.lines } = ToSet(j.lines)
             /\ v.never = ToSet(j.never))
TNext == TNew \/ TCall \/ TVerify
TSpec == (InitWith([strict |-> TRUE, leaves |-> <<>>, perm |-> <<>>]) /\ l = 1) /\ [][TNext]_tvars

Track == IF l > TLCGet(1) THEN TLCSet(1, l) ELSE TRUE
Accepted ==
  IF TLCGet(1) = Len(Rec) + 1 THEN TRUE
  ELSE PrintT(<<"UNMATCHED", TLCGet(1), ToJson(Rec[TLCGet(1)])>>) /\ FALSE

tHasDefault == [m \in Method |-> m \in {"d0", "d1"}]
tHasUnmock == [m \in Method |-> m \in {"r1", "d1"}]
tPartialByDef == [m \in Method |-> FALSE]
tRetOwned == [m \in Method |-> m # "b0"]
tRequired == Method \ {"d0", "d1"}
=============================================================================
