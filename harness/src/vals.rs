//! Observable values: every id is distinguishable, every clone and drop is counted.
use std::sync::atomic::{AtomicU32, Ordering::SeqCst};

pub const NIDS: usize = 16384;
#[allow(clippy::declare_interior_mutable_const)]
const Z: AtomicU32 = AtomicU32::new(0);
pub static CLONES: [AtomicU32; NIDS] = [Z; NIDS];
pub static DROPS: [AtomicU32; NIDS] = [Z; NIDS];
pub static MADE: [AtomicU32; NIDS] = [Z; NIDS];
/// drops of values that are not clones (generation 0): the configured / lent value itself
pub static DROPS0: [AtomicU32; NIDS] = [Z; NIDS];

pub const DEFAULT_ID: u32 = 9000;
pub const REAL_ID: u32 = 7000;
pub const DFLT_ID: u32 = 8000;

pub fn reset_counts() {
    for i in 0..NIDS {
        CLONES[i].store(0, SeqCst);
        DROPS[i].store(0, SeqCst);
        MADE[i].store(0, SeqCst);
        DROPS0[i].store(0, SeqCst);
    }
}
pub fn reset_id(id: u32) {
    let i = id as usize % NIDS;
    CLONES[i].store(0, SeqCst);
    DROPS[i].store(0, SeqCst);
    MADE[i].store(0, SeqCst);
    DROPS0[i].store(0, SeqCst);
}
pub fn drops0(id: u32) -> u32 {
    DROPS0[id as usize % NIDS].load(SeqCst)
}
pub fn counts(id: u32) -> (u32, u32, u32) {
    let i = id as usize % NIDS;
    (MADE[i].load(SeqCst), CLONES[i].load(SeqCst), DROPS[i].load(SeqCst))
}

/// A Clone value. `gen` = 0 for a value constructed by the harness, parent+1 for a clone.
#[derive(Debug, PartialEq, Eq)]
pub struct Val {
    pub id: u32,
    pub gen: u32,
}
impl Val {
    pub fn new(id: u32) -> Val {
        MADE[id as usize % NIDS].fetch_add(1, SeqCst);
        Val { id, gen: 0 }
    }
}
impl Default for Val {
    fn default() -> Self {
        Val::new(DEFAULT_ID)
    }
}
thread_local! {
    /// when set to an id, the next Clone of a value with that id panics (a user panic)
    pub static CLONE_PANIC: std::cell::Cell<u32> = const { std::cell::Cell::new(0) };
}
impl Clone for Val {
    fn clone(&self) -> Self {
        if CLONE_PANIC.with(|c| c.get()) == self.id && self.id != 0 {
            CLONE_PANIC.with(|c| c.set(0));
            std::panic::panic_any(UserPanic(self.id));
        }
        CLONES[self.id as usize % NIDS].fetch_add(1, SeqCst);
        Val { id: self.id, gen: self.gen + 1 }
    }
}
impl Drop for Val {
    fn drop(&mut self) {
        if self.gen == 0 {
            DROPS0[self.id as usize % NIDS].fetch_add(1, SeqCst);
        }
        DROPS[self.id as usize % NIDS].fetch_add(1, SeqCst);
    }
}

/// A value that cannot be cloned.
#[derive(Debug, PartialEq, Eq)]
pub struct Tok {
    pub id: u32,
}
impl Tok {
    pub fn new(id: u32) -> Tok {
        MADE[id as usize % NIDS].fetch_add(1, SeqCst);
        Tok { id }
    }
}
impl Drop for Tok {
    fn drop(&mut self) {
        DROPS0[self.id as usize % NIDS].fetch_add(1, SeqCst);
        DROPS[self.id as usize % NIDS].fetch_add(1, SeqCst);
    }
}

/// Payload of panics raised by user code (answers, real functions, default bodies, matchers).
#[derive(Debug)]
pub struct UserPanic(pub u32);
