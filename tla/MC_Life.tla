------------------------------- MODULE MC_Life --------------------------------
EXTENDS Lifecycle, Json
CONSTANT EmitOn
VARIABLE hist
mcvars == <<vars, hist>>
MCInit == Init /\ hist = <<>>
\* alt: the other outcome the statement allows for this step.  When a clone is alive AND the thread is foreign the
\* statement only says that verification panics; teardown.rs happens to test the clones first, the other order
\* would hold the property just as well.
Alt(o) == IF o.res = "panic:clones" /\ o.others /\ o.foreign THEN "panic:thread" ELSE o.res
\* rel: the instances that cease to exist in this step.  make_mut MAY release the values lent earlier by its instance
\* (the model, like the code, does so at once); the statement only requires them to be released no later than with
\* their instance, so the replay accepts a later release, bounded by `rel`.
MCNext == Next /\ hist' = Append(hist, [ev |-> out'.ev, res |-> out'.res, alt |-> Alt(out'), dropped |-> out'.dropped, new |-> out'.new,
                                         rel |-> { i \in Ids : inst[i].alive /\ ~inst'[i].alive }])
\* a behaviour is complete when it used all its steps or nothing is alive any more
Complete == steps = MaxSteps \/ RefCnt(inst) = 0
MCSpec == MCInit /\ [][MCNext]_mcvars
Emit == (EmitOn /\ Complete /\ Len(hist) > 0) => PrintT(<<"REPLAY", ToJson([steps |-> hist])>>)
\* stop extending complete behaviours
Bound == ~(RefCnt(inst) = 0 /\ steps > 0) \/ TRUE
AllOps == {"pinlend", "pinlendclone", "clone", "delegate", "lend", "move", "hit", "err", "make_ref", "make_mut", "drop", "verify", "report", "noverify", "unwind"}
C09Ops == AllOps \ {"unwind", "make_ref", "make_mut"}
C11Ops == {"clone", "delegate", "lend", "move", "hit", "err", "noverify", "unwind", "drop"}
C13Ops == {"pinlend", "pinlendclone", "clone", "delegate", "lend", "make_ref", "make_mut", "drop", "verify", "hit"}
T2 == {0, 1}
=============================================================================
