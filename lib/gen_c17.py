"""C17 / C12(composite): render Shapes.tla cases to a Rust program and compute the expected renderings."""
import json

LEAF_TY = {"O": "Val", "T": "Tok", "B": "&Val", "Bs": "&str", "Bl": "&[Val]", "S": "&'static str"}
LEAF_SUP = {"O": "Val", "T": "Tok", "B": "Val", "Bs": "String", "Bl": "Vec<Val>", "S": "&'static str"}


def ty_rust(ty, table):
    c = ty["c"]
    if c == "leaf":
        return table[ty["l"]]
    if c == "opt":
        return "Option<%s>" % ty_rust(ty["x"], table)
    if c == "vec":
        return "Vec<%s>" % ty_rust(ty["x"], table)
    if c == "poll":
        return "Poll<%s>" % ty_rust(ty["x"], table)
    if c == "res":
        return "Result<%s, %s>" % (ty_rust(ty["ok"], table), ty_rust(ty["err"], table))
    if c == "tup":
        return "(%s,)" % ", ".join(ty_rust(x, table) for x in ty["xs"])
    raise ValueError(c)


class Ids:
    def __init__(self):
        self.n = 0

    def next(self):
        self.n += 1
        return self.n


def lit(ty, v, ids):
    """(rust literal of the supplied value, expected show() with placeholder {g} for owned-leaf generation)"""
    c = v["c"]
    if c == "leaf":
        i = ids.next()
        l = v["l"]
        if l == "O":
            return "Val::new(%d)" % i, "O%dg{g}" % i
        if l == "T":
            return "Tok::new(%d)" % i, "T%d" % i
        if l == "B":
            return "Val::new(%d)" % i, "&O%dg0" % i
        if l == "Bs":
            return 'String::from("s%d")' % i, "&s%d" % i
        if l == "S":
            return '"s%d"' % i, "&s%d" % i
        if l == "Bl":
            j = ids.next()
            return "vec![Val::new(%d), Val::new(%d)]" % (i, j), "&[O%dg0,O%dg0]" % (i, j)
    if c == "none":
        return "None", "None"
    if c == "some":
        a, b = lit(ty["x"], v["x"], ids)
        return "Some(%s)" % a, "Some(%s)" % b
    if c == "ok":
        a, b = lit(ty["ok"], v["x"], ids)
        return "Ok(%s)" % a, "Ok(%s)" % b
    if c == "err":
        a, b = lit(ty["err"], v["x"], ids)
        return "Err(%s)" % a, "Err(%s)" % b
    if c == "pending":
        return "Poll::Pending", "Pending"
    if c == "ready":
        a, b = lit(ty["x"], v["x"], ids)
        return "Poll::Ready(%s)" % a, "Ready(%s)" % b
    if c == "vec":
        parts = [lit(ty["x"], x, ids) for x in v["xs"]]
        return "vec![%s]" % ", ".join(p[0] for p in parts), "[%s]" % ",".join(p[1] for p in parts)
    if c == "tup":
        parts = [lit(t, x, ids) for t, x in zip(ty["xs"], v["xs"])]
        return "(%s,)" % ", ".join(p[0] for p in parts), "(%s)" % ",".join(p[1] for p in parts)
    raise ValueError(c)


def render(cases):
    """cases: list of docs from MC_Shapes Emit. Returns (main_rs, expectations{case_id: {...}})"""
    types = []
    tindex = {}
    for cdoc in cases:
        k = json.dumps(cdoc["ty"], sort_keys=True)
        if k not in tindex:
            tindex[k] = len(types)
            types.append(cdoc["ty"])
    out = ["mod prelude;", "use prelude::*;", "use unimock::*;", "use std::task::Poll;", ""]
    for i, ty in enumerate(types):
        out.append("#[unimock(api=M%d)]\ntrait Tr%d { fn f%d(&self) -> %s; }" % (i, i, i, ty_rust(ty, LEAF_TY)))
    exp = {}
    fns = []
    for n, cdoc in enumerate(cases):
        ti = tindex[json.dumps(cdoc["ty"], sort_keys=True)]
        literal, shown = lit(cdoc["ty"], cdoc["v"], Ids())
        shown = shown.replace("{g}", str(cdoc["gen"]))
        cid = "c%d" % n
        start = "some_call" if cdoc["path"] == "once" else "each_call"
        fns.append(cid)
        out.append("""
fn %(cid)s() {
    let v: %(sup)s = %(lit)s;
    let built = std::panic::catch_unwind(std::panic::AssertUnwindSafe(|| Unimock::new(M%(ti)d::f%(ti)d.%(start)s(matching!()).returns(v))));
    let u = match built { Ok(u) => u, Err(p) => { emit("%(cid)s", vec![("new", jstr(&panic_text(p)))]); return; } };
    let mut a1: Vec<usize> = vec![]; let mut a2: Vec<usize> = vec![];
    let r1 = observe(|| u.f%(ti)d(), |r| { r.addrs(&mut a1); r.show() });
    let r2 = observe(|| u.f%(ti)d(), |r| { r.addrs(&mut a2); r.show() });
    let r3 = observe(|| u.f%(ti)d(), |r| r.show());
    let stable = a1 == a2;
    let fin = observe(move || drop(u.no_verify_in_drop()), |_| "ok".to_string());
    emit("%(cid)s", vec![("r1", res_json(&r1)), ("r2", res_json(&r2)), ("r3", res_json(&r3)), ("stable", stable.to_string()), ("nborrowed", a1.len().to_string())]);
}""" % {"cid": cid, "sup": ty_rust(cdoc["ty"], LEAF_SUP), "lit": literal, "ti": ti, "start": start})
        exp[cid] = {"r1": shown, "second": cdoc["second"], "third": cdoc["third"], "show": shown, "doc": cdoc,
                    "rust_type": ty_rust(cdoc["ty"], LEAF_TY), "literal": literal}
    out.append("\nfn main() {\n    std::panic::set_hook(Box::new(|_| {}));\n" + "".join("    %s();\n" % f for f in fns) + "}\n")
    return "\n".join(out), exp


def compare(exp, obs_lines):
    """Returns list of divergences."""
    obs = {o["case"]: o for o in obs_lines}
    divs = []
    for cid, e in exp.items():
        o = obs.get(cid)
        if o is None:
            divs.append({"case": cid, "what": "case produced no observation", "expected": e["show"], "observed": None, "exp": e})
            continue
        if "new" in o:
            divs.append({"case": cid, "what": "construction panicked", "expected": "mock constructed", "observed": o["new"], "exp": e})
            continue

        def want(which):
            if which == "value":
                return {"ok": e["show"]}
            return "refused"

        def matches(got, which):
            if which == "value":
                return got == {"ok": e["show"]}
            return "panic" in got and "Cannot return value more than once" in got["panic"]
        for key, which in (("r1", "value"), ("r2", e["second"]), ("r3", e["third"])):
            if not matches(o[key], which):
                divs.append({"case": cid, "what": "call %s of %s configured with %s" % (key[1], e["rust_type"], e["literal"]),
                             "expected": want(which), "observed": o[key], "exp": e})
                break
        else:
            if e["second"] == "value" and o["nborrowed"] > 0 and not o["stable"]:
                divs.append({"case": cid, "what": "borrowed leaves do not point at the same stored values on successive calls",
                             "expected": "stable addresses", "observed": "addresses differ", "exp": e})
    return divs
