"""C05: render method shapes of Shapes.tla (Forward) as #[unimock] traits with recording matchers / answers."""
import json, random

PTY = {"u8": "u8", "string": "String", "ru8": "&u8", "rru8": "&&u8", "str": "&str", "tstr": "&'t str", "mu8": "&mut u8", "mvec": "&mut Vec<u8>", "mlvec": "&'a mut Vec<u8>",
       "slice": "&[u8]", "vec": "Vec<u8>", "gen": "T", "optstr": "Option<&str>", "pair": "(u8, u8)"}
RTY = {"u32": "u32", "string": "String", "opt": "Option<u32>", "ref": "&u32", "sref": "&'s u32", "optref": "Option<&u32>", "static": "&'static str",
       "assoc": "Self::Out", "pref": "&'a str", "dynref": "&dyn std::fmt::Display", "boxdyn": "Box<dyn std::fmt::Display>"}
RECV = {"ref": "&self", "mut": "&mut self", "own": "self", "rc": "self: std::rc::Rc<Self>", "arc": "self: std::sync::Arc<Self>", "pin": "self: std::pin::Pin<&mut Self>"}


def arg(k, i):
    return {"u8": "%d" % i, "string": 'String::from("s%d")' % i, "ru8": "&%d" % i, "rru8": "&&%d" % i, "str": '"s%d"' % i, "tstr": '"s%d"' % i, "mu8": "&mut v%d" % i,
            "mvec": "&mut v%d" % i, "mlvec": "&mut v%d" % i, "slice": "&[%d, %d]" % (i, i + 1), "vec": "vec![%d, %d]" % (i, i + 1), "gen": "%du16" % i,
            "optstr": 'Some("k%d")' % i, "pair": "(%d, %d)" % (i, i + 1)}[k]


def initial_after(k, i):
    return "%d" % i if k == "mu8" else "[%d]" % i


def sample(shapes, n, seed):
    """seeded subset that covers every value of every dimension and every pair (recv, async), (recv, api), (params, recv)"""
    rng = random.Random(seed)
    shapes = list(shapes)
    rng.shuffle(shapes)
    need = set()
    def feats(sh):
        s = sh["shape"]
        pl = json.dumps(s["params"])
        return {("recv", s["recv"], "async", s["async"]), ("recv", s["recv"], "api", s["api"]), ("pl", pl, "recv", s["recv"]), ("pl", pl, "async", s["async"]),
                ("ret", s["ret"], "recv", s["recv"]), ("api", s["api"], "async", s["async"]), ("pl", pl, "api", s["api"])}
    for sh in shapes:
        need |= feats(sh)
    chosen = []
    for sh in shapes:
        f = feats(sh) & need
        if f:
            chosen.append(sh)
            need -= f
    rest = [s for s in shapes if s not in chosen]
    chosen += rest[:max(0, n - len(chosen))]
    return chosen


def cases_of_errors(main_rs, errs):
    """Maps compile errors to the generated cases they sit in (by the `// case fN` markers).
    Returns (set of case indexes, number of errors outside any case)."""
    starts = []
    for i, line in enumerate(main_rs.splitlines(), 1):
        if line.startswith("// case f"):
            starts.append((i, int(line[len("// case f"):])))
        if line.startswith("fn main()"):
            starts.append((i, None))
    hit, outside = set(), 0
    for (f, ln, _code, _msg) in errs:
        if not f or not f.endswith("main.rs"):
            outside += 1
            continue
        cur = None
        for (st, n) in starts:
            if st <= ln:
                cur = (st, n)
        if cur is None or cur[1] is None:
            outside += 1
        else:
            hit.add(cur[1])
    return hit, outside


def render(cases):
    L = ["mod prelude;", "use prelude::*;", "use unimock::*;", "use std::future::Future;", ""]
    exp = {}
    fns = []
    for n, c in enumerate(cases):
        sh = c["shape"]
        fwd = c["fwd"]
        params, recv, ret, asy, api = sh["params"], sh["recv"], sh["ret"], sh["async"], sh["api"]
        generic = "gen" in params
        gl = (["'a"] if ("mlvec" in params or ret == "pref") else []) + (["'s"] if ret == "sref" else [])
        gt = ["T: Show + Send + 'static"] if generic else []
        gdecl = ("<" + ", ".join(gl + gt) + ">") if (gl or gt) else ""
        plist = "".join(", a%d: %s" % (i + 1, "&'a str" if (ret == "pref" and i == 0) else PTY[k]) for i, k in enumerate(params))
        rty = RTY[ret]
        recv_src = "&'s self" if ret == "sref" else RECV[recv]
        assoc_attr = ", type Out = u32;" if ret == "assoc" else ""
        assoc_item = "type Out; " if ret == "assoc" else ""
        trait_lt = "<'t>" if "tstr" in params else ""
        if asy == "asyncfn":
            sig = "async fn f%d%s(%s%s) -> %s;" % (n, gdecl, recv_src, plist, rty)
        elif asy == "implfuture":
            sig = "fn f%d%s(%s%s) -> impl Future<Output = %s>;" % (n, gdecl, recv_src, plist, rty)
        else:
            sig = "fn f%d%s(%s%s) -> %s;" % (n, gdecl, recv_src, plist, rty)
        names = ", ".join("a%d" % (i + 1) for i in range(len(params)))
        shows = ", ".join("sh(&a%d)" % (i + 1) for i in range(len(params)))      # answer / real function: owns the arguments
        mshows = ", ".join("sh(a%d)" % (i + 1) for i in range(len(params)))      # matcher: bindings are references to them
        writes = "".join(("*a%d += 100; " % (i + 1)) if k == "mu8" else ("a%d.push(%d); " % (i + 1, i + 101)) if k in ("mvec", "mlvec") else "" for i, k in enumerate(params))
        retexpr = {"u32": "4242u32", "string": 'String::from("ret")', "opt": "Some(7u32)", "ref": None, "sref": None, "optref": None,
                   "static": '"lit"', "assoc": "4242u32", "pref": "a1", "dynref": None, "boxdyn": "Box::new(78u32) as Box<dyn std::fmt::Display>"}[ret]
        L.append("// case f%d" % n)
        if api == "hidden":
            L.append("#[unimock(unmock_with=[real_%d])]" % n)
            L.append("trait Tr%d { %s }" % (n, sig))
            L.append("%sfn real_%d(_dep: &impl Tr%d%s) -> %s { rec_a(vec![%s]); %s%s }" % ("async " if asy != "none" else "", n, n, plist, rty, shows, writes, retexpr))
            build = "Unimock::new_partial(())"
        else:
            if api == "module":
                L.append("#[unimock(api=M%d%s)]" % (n, assoc_attr))
                mf = "M%d::f%d" % (n, n)
            else:
                L.append("#[unimock(api=[F%d]%s)]" % (n, assoc_attr))
                mf = "F%d" % n
            L.append("%strait Tr%d%s { %s%s }" % ("pub " if ret == "assoc" else "", n, trait_lt, assoc_item, sig))
            if generic:
                mf += ".with_types::<u16>()"
            if len(params) == 0:
                # a nullary method still presents its (empty) argument tuple to the matcher
                mt = "&|m| { m.func(|_, _| rec_m(vec![])); }"
            else:
                mt = "matching!((%s) if rec_m(vec![%s]))" % (names, mshows)
            uparam = "u" if (ret in ("ref", "sref", "optref", "dynref") or recv == "own") else "_u"
            rexpr = "Unimock::make_ref(u, 77u32)" if ret in ("ref", "sref") else "Some(Unimock::make_ref(u, 77u32))" if ret == "optref" \
                else "Unimock::make_ref(u, 77u32) as &dyn std::fmt::Display" if ret == "dynref" else retexpr
            if recv == "own" and asy == "none":
                # the receiver handed to the answer is the caller's own instance: an original accepts verify(), a clone does not
                writes = writes + "u.verify(); "
            ans = "&|%s%s| { rec_a(vec![%s]); %s%s }" % (uparam, "".join(", a%d" % (i + 1) for i in range(len(params))), shows, writes, rexpr)
            build = "Unimock::new(%s.each_call(%s).answers(%s))" % (mf, mt, ans)
        cid = "f%d" % n
        L.append("fn %s() {" % cid)
        L.append("    let _ = take_m(); let _ = take_a();")
        for i, k in enumerate(params):
            if k == "mu8":
                L.append("    let mut v%d: u8 = %d;" % (i + 1, i + 1))
            if k in ("mvec", "mlvec"):
                L.append("    let mut v%d: Vec<u8> = vec![%d];" % (i + 1, i + 1))
        args = ", ".join(arg(k, i + 1) for i, k in enumerate(params))
        afters = "vec![%s]" % ", ".join("v%d.show()" % (i + 1) for i, k in enumerate(params) if k in ("mu8", "mvec", "mlvec"))
        mutu = "mut " if recv in ("mut", "pin") else ""

        def callexpr():
            if recv in ("ref", "mut", "own"):
                return "u.f%d(%s)" % (n, args)
            if recv == "rc":
                return "std::rc::Rc::new(u).f%d(%s)" % (n, args)
            if recv == "arc":
                return "std::sync::Arc::new(u).f%d(%s)" % (n, args)
            return "std::pin::Pin::new(&mut u).f%d(%s)" % (n, args)
        consumed = recv in ("own", "rc", "arc")
        L.append("    let %su = %s.no_verify_in_drop();" % (mutu, build))
        if asy == "none":
            L.append("    let r = observe(|| %s, |r| r.show());" % callexpr())
            L.append("    let pre = 0usize;")
        else:
            L.append("    let mut pre = 0usize;")
            L.append("    let r = observe(|| { let fut = %s; pre = log_len(); block_on(fut) }, |r| r.show());" % callexpr())
        L.append("    let m = take_m(); let a = take_a(); let after: Vec<String> = %s;" % afters)
        # second scenario for async: a future dropped unpolled evaluates nothing
        if asy != "none":
            for i, k in enumerate(params):
                if k == "mu8":
                    L.append("    let mut v%d: u8 = %d;" % (i + 1, i + 1))
                if k in ("mvec", "mlvec"):
                    L.append("    let mut v%d: Vec<u8> = vec![%d];" % (i + 1, i + 1))
            if consumed:
                L.append("    let %su = %s.no_verify_in_drop();" % (mutu, build))
            L.append("    let d = observe(|| { let fut = %s; drop(fut); }, |_| String::new());" % callexpr())
            L.append("    let dropped_log = log_len(); let _ = take_m(); let _ = take_a(); let dafter: Vec<String> = %s;" % afters)
            if not consumed:
                L.append("    let _ = observe(move || drop(u), |_| String::new());")
            L.append("    emit(\"%s\", vec![(\"r\", res_json(&r)), (\"m\", jlog(&m)), (\"a\", jlog(&a)), (\"after\", jlist(&after)), (\"pre\", pre.to_string()), (\"dropped\", res_json(&d)), (\"dropped_log\", dropped_log.to_string()), (\"dafter\", jlist(&dafter))]);" % cid)
        else:
            if not consumed:
                L.append("    let _ = observe(move || drop(u), |_| String::new());")
            L.append("    emit(\"%s\", vec![(\"r\", res_json(&r)), (\"m\", jlog(&m)), (\"a\", jlog(&a)), (\"after\", jlist(&after)), (\"pre\", pre.to_string())]);" % cid)
        L.append("}")
        fns.append(cid)
        exp[cid] = {"shape": sh, "sig": sig, "matcher": [] if api == "hidden" else [fwd["matcher"]], "answer": [fwd["answer"]],
                    "ret": fwd["ret"], "after": [x for x in fwd["after"] if x != "-"],
                    "initial": [initial_after(k, i + 1) for i, k in enumerate(params) if k in ("mu8", "mvec", "mlvec")], "async": asy != "none"}
    L.append("fn main() {")
    L.append("    std::panic::set_hook(Box::new(|_| {}));")
    for f in fns:
        L.append("    %s();" % f)
    L.append("}")
    return "\n".join(L) + "\n", exp


def compare(exp, obs_lines):
    obs = {o["case"]: o for o in obs_lines}
    divs = []
    for cid, e in exp.items():
        o = obs.get(cid)
        if o is None:
            divs.append({"case": cid, "what": "case produced no observation", "expected": None, "observed": None, "exp": e})
            continue
        checks = [("r", {"ok": e["ret"]}, "the answer's result is not returned unchanged"),
                  ("m", e["matcher"], "the input matcher was not presented exactly the caller's arguments in declaration order"),
                  ("a", e["answer"], "the answer function did not receive exactly the caller's arguments in declaration order (once)"),
                  ("after", e["after"], "writes through &mut parameters are not visible to the caller")]
        if e["async"]:
            checks += [("pre", 0, "an async method was evaluated before its future was polled"),
                       ("dropped_log", 0, "an async method was evaluated although its future was dropped unpolled"),
                       ("dafter", e["initial"], "a future dropped unpolled wrote through &mut parameters")]
        for key, want, what in checks:
            got = o.get(key)
            if key == "m" and want and got:
                # how often the library evaluates a matcher is its own business; every time it must be shown the same thing
                if all(g == want[0] for g in got):
                    continue
            if got != want:
                divs.append({"case": cid, "what": "%s  [%s]" % (what, e["sig"]), "expected": {key: want}, "observed": {key: o.get(key)}, "exp": e})
                break
    return divs
