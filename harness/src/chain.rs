//! Run-time builder chains over unimock's type-state builder API (DESIGN F.2).
//! A leaf description from the model is turned into calls of the *real* API:
//! some_call / each_call / next_call / stub, returns / returns_default / answers / answers_arc /
//! panics / applies_unmocked / applies_default_impl, once / n_times / at_least_times, then.
//! Ill-typed chains are unrepresentable here (they are produced by the compile-fail generator only).
use crate::universe::*;
use crate::vals::*;
use serde::{Deserialize, Serialize};
use std::sync::Arc;
use unimock::build::*;
use unimock::property::*;
use unimock::verif::DynClause;
use unimock::private::Matching;
use unimock::*;

#[derive(Clone, Debug, Deserialize, Serialize)]
pub struct Seg {
    pub k: String,
    pub q: String,
    #[serde(default)]
    pub n: usize,
}
#[derive(Clone, Debug, Deserialize, Serialize)]
pub struct Pat {
    pub pred: Vec<u8>,
    pub chain: Vec<Seg>,
}
#[derive(Clone, Debug, Deserialize, Serialize)]
pub struct Leaf {
    pub m: String,
    pub form: String,
    pub pats: Vec<Pat>,
}

/// id of the value configured by segment `seg` (1-based) of pattern `pi` of leaf `li` (1-based);
/// the same rule as ValId in tla/Mock.tla
pub fn val_id(li: usize, pi: usize, seg: usize) -> u32 {
    (li * 100 + pi * 10 + seg) as u32
}
pub fn label(li: usize, pi: usize) -> String {
    format!("(L{li}P{pi})")
}

pub trait Fin<'p> {
    fn fin<C: Clause + 'p>(&mut self, c: C);
}
pub struct PushFin<'a>(pub &'a mut DynClause);
impl<'a> Fin<'static> for PushFin<'a> {
    fn fin<C: Clause + 'static>(&mut self, c: C) {
        self.0.push(c)
    }
}
pub struct DropFin;
impl<'p> Fin<'p> for DropFin {
    fn fin<C: Clause + 'p>(&mut self, c: C) {
        drop(c)
    }
}

pub const POISON_ARG: u8 = 9;

#[derive(Clone, Copy)]
pub struct Ids {
    pub li: usize,
    pub pi: usize,
}

fn mask_of(pred: &[u8]) -> u32 {
    pred.iter().fold(0u32, |m, a| m | (1u32 << *a))
}
fn leak(s: String) -> &'static str {
    Box::leak(s.into_boxed_str())
}

macro_rules! if_flag {
    (yes, $e:expr) => {
        $e
    };
    (no, $e:expr) => {
        panic!("harness: ill-typed chain requested")
    };
}

/// $m: module name, $F: MockFn path, $O: ordering marker, $mname: method id,
/// $mk: |id| value for returns(), $ans: |id| boxed answer closure,
/// $clone/$dflt/$atleast: yes|no
macro_rules! chain_fns {
    ($m:ident, $F:path, $O:ident, $mname:expr, $mk:expr, $ans:expr, $clone:ident, $dflt:ident, $atleast:ident) => {
        pub mod $m {
            use super::*;
            type F = $F;

            pub fn matcher(pat: &Pat, ids: Ids) -> impl Fn(&mut Matching<F>) {
                let mask = mask_of(&pat.pred);
                let lab = leak(label(ids.li, ids.pi));
                let line = (ids.li * 10 + ids.pi) as u32;
                // every other matcher reports a diagnostic even when it accepts: the accept/reject
                // decision is the returned bool, never what was reported
                let noisy = (ids.li + ids.pi) % 2 == 0;
                move |m: &mut Matching<F>| {
                    m.func(move |a: &u8, r| {
                        if *a == POISON_ARG {
                            // user code inside the matcher panics (PoisonArg of tla/Mock.tla)
                            std::panic::panic_any(UserPanic(9));
                        }
                        if noisy {
                            r.pat_fail(0, Some("noise"), Some("noise"));
                        }
                        (mask >> *a) & 1 == 1
                    });
                    m.pat_debug(lab, "model", line);
                }
            }

            fn other<'p>(b: DefineMultipleResponses<'p, F, $O>, s: &Seg, id: u32) -> Quantify<'p, F, $O> {
                match s.k.as_str() {
                    "val" => if_flag!($clone, b.returns(($mk)(id))),
                    "default" => if_flag!($dflt, b.returns_default()),
                    "answer" => b.answers(Box::leak(($ans)(id))),
                    "answer_arc" => b.answers_arc(Arc::from(($ans)(id))),
                    "panic" => b.panics(format!("boom{id}")),
                    "unmock" => b.applies_unmocked(),
                    "dflt" => b.applies_default_impl(),
                    k => panic!("harness: unknown response kind {k}"),
                }
            }
            fn other1<'p>(b: DefineResponse<'p, F, $O>, s: &Seg, id: u32) -> Quantify<'p, F, $O> {
                match s.k.as_str() {
                    "default" => if_flag!($dflt, b.returns_default()),
                    "answer" => b.answers(Box::leak(($ans)(id))),
                    "answer_arc" => b.answers_arc(Arc::from(($ans)(id))),
                    "panic" => b.panics(format!("boom{id}")),
                    "unmock" => b.applies_unmocked(),
                    "dflt" => b.applies_default_impl(),
                    k => panic!("harness: unknown response kind {k}"),
                }
            }

            pub fn seg_multi<'p, X: Fin<'p>>(
                b: DefineMultipleResponses<'p, F, $O>,
                chain: &[Seg],
                i: usize,
                ids: Ids,
                fin: &mut X,
            ) {
                let q = other(b, &chain[i], val_id(ids.li, ids.pi, i + 1));
                quant(q, chain, i, ids, fin)
            }
            fn quant<'p, X: Fin<'p>>(q: Quantify<'p, F, $O>, chain: &[Seg], i: usize, ids: Ids, fin: &mut X) {
                let s = &chain[i];
                let last = i + 1 == chain.len();
                match s.q.as_str() {
                    "none" => {
                        assert!(last, "harness: then() after an unquantified response");
                        fin.fin(q)
                    }
                    "once" => after_exact(q.once(), chain, i, ids, fin),
                    "n" => after_exact(q.n_times(s.n), chain, i, ids, fin),
                    "atleast" => {
                        assert!(last, "harness: then() after at_least_times");
                        if_flag!($atleast, fin.fin(q.at_least_times(s.n)))
                    }
                    o => panic!("harness: unknown quantifier {o}"),
                }
            }
            fn after_exact<'p, X: Fin<'p>>(
                qr: QuantifiedResponse<'p, F, $O, Exact>,
                chain: &[Seg],
                i: usize,
                ids: Ids,
                fin: &mut X,
            ) {
                if i + 1 == chain.len() {
                    fin.fin(qr)
                } else {
                    seg_multi(qr.then(), chain, i + 1, ids, fin)
                }
            }
            pub fn first<'p, X: Fin<'p>>(b: DefineResponse<'p, F, $O>, chain: &[Seg], ids: Ids, fin: &mut X) {
                let s = &chain[0];
                let id = val_id(ids.li, ids.pi, 1);
                if s.k == "val" {
                    let qrv = b.returns(($mk)(id));
                    match s.q.as_str() {
                        "none" => {
                            assert!(chain.len() == 1);
                            fin.fin(qrv)
                        }
                        "once" => after_exact(qrv.once(), chain, 0, ids, fin),
                        "n" => if_flag!($clone, after_exact(qrv.n_times(s.n), chain, 0, ids, fin)),
                        "atleast" => {
                            assert!(chain.len() == 1);
                            if_flag!($clone, if_flag!($atleast, fin.fin(qrv.at_least_times(s.n))))
                        }
                        o => panic!("harness: unknown quantifier {o}"),
                    }
                } else {
                    let q = other1(b, s, id);
                    quant(q, chain, 0, ids, fin)
                }
            }
        }
    };
}

type AnsVal = Box<dyn for<'u> Fn(&'u Unimock, u8) -> Val + Send + Sync>;
type AnsTok = Box<dyn for<'u> Fn(&'u Unimock, u8) -> Tok + Send + Sync>;
type AnsRef = Box<dyn for<'u> Fn(&'u Unimock, u8) -> &'u Val + Send + Sync>;

macro_rules! val_method {
    ($any:ident, $ord:ident, $F:path, $mname:expr) => {
        chain_fns!($any, $F, InAnyOrder, $mname, |id: u32| Val::new(id),
            |id: u32| -> AnsVal { Box::new(move |u: &Unimock, a: u8| Val::new(user_code(u, "answer", id, $mname, a))) },
            yes, yes, yes);
        chain_fns!($ord, $F, InOrder, $mname, |id: u32| Val::new(id),
            |id: u32| -> AnsVal { Box::new(move |u: &Unimock, a: u8| Val::new(user_code(u, "answer", id, $mname, a))) },
            yes, yes, no);
    };
}
val_method!(r0_any, r0_ord, UMock::r0, "r0");
val_method!(r1_any, r1_ord, UMock::r1, "r1");
val_method!(r2_any, r2_ord, UMock::r2, "r2");
val_method!(d0_any, d0_ord, UMock::d0, "d0");
val_method!(d1_any, d1_ord, UMock::d1, "d1");
chain_fns!(t0_any, UMock::t0, InAnyOrder, "t0", |id: u32| Tok::new(id),
    |id: u32| -> AnsTok { Box::new(move |u: &Unimock, a: u8| Tok::new(user_code(u, "answer", id, "t0", a))) },
    no, no, yes);
chain_fns!(t0_ord, UMock::t0, InOrder, "t0", |id: u32| Tok::new(id),
    |id: u32| -> AnsTok { Box::new(move |u: &Unimock, a: u8| Tok::new(user_code(u, "answer", id, "t0", a))) },
    no, no, no);
chain_fns!(b0_any, UMock::b0, InAnyOrder, "b0", |id: u32| Val::new(id),
    |id: u32| -> AnsRef { Box::new(move |u: &Unimock, a: u8| u.make_ref(Val::new(user_code(u, "answer", id, "b0", a)))) },
    yes, no, yes);
chain_fns!(b0_ord, UMock::b0, InOrder, "b0", |id: u32| Val::new(id),
    |id: u32| -> AnsRef { Box::new(move |u: &Unimock, a: u8| u.make_ref(Val::new(user_code(u, "answer", id, "b0", a)))) },
    yes, no, no);

macro_rules! add_leaf_for {
    ($dc:expr, $leaf:expr, $li:expr, $F:path, $any:ident, $ord:ident) => {{
        let leaf: &Leaf = $leaf;
        let li: usize = $li;
        match leaf.form.as_str() {
            "some" => {
                let ids = Ids { li, pi: 1 };
                let b = $F.some_call(&$any::matcher(&leaf.pats[0], ids));
                $any::first(b, &leaf.pats[0].chain, ids, &mut PushFin($dc));
            }
            "each" => {
                let ids = Ids { li, pi: 1 };
                let b = $F.each_call(&$any::matcher(&leaf.pats[0], ids));
                $any::seg_multi(b, &leaf.pats[0].chain, 0, ids, &mut PushFin($dc));
            }
            "next" => {
                let ids = Ids { li, pi: 1 };
                let b = $F.next_call(&$ord::matcher(&leaf.pats[0], ids));
                $ord::first(b, &leaf.pats[0].chain, ids, &mut PushFin($dc));
            }
            "stub" => {
                let clause = $F.stub(|each| {
                    for (j, p) in leaf.pats.iter().enumerate() {
                        let ids = Ids { li, pi: j + 1 };
                        let b = each.call(&$any::matcher(p, ids));
                        $any::seg_multi(b, &p.chain, 0, ids, &mut DropFin);
                    }
                });
                $dc.push(clause);
            }
            f => panic!("harness: unknown clause form {f}"),
        }
    }};
}

/// Generic instantiations: the MockFn type is opaque (`impl MockFn`), so only the simple forms
/// (each_call / next_call with one returns(v) segment) are supported, written out directly.
fn add_g<T: 'static>(dc: &mut DynClause, leaf: &Leaf, li: usize)
where
    Unimock: UG<T>,
{
    let pat = &leaf.pats[0];
    let s = &pat.chain[0];
    assert!(pat.chain.len() == 1 && s.k == "val", "harness: unsupported chain for a generic method");
    let mask = mask_of(&pat.pred);
    let lab = leak(label(li, 1));
    let line = (li * 10 + 1) as u32;
    let id = val_id(li, 1, 1);
    match leaf.form.as_str() {
        "each" => {
            let q = UGMock::g
                .with_types::<T>()
                .each_call(&move |m| {
                    m.func(move |a: &u8, _| (mask >> *a) & 1 == 1);
                    m.pat_debug(lab, "model", line);
                })
                .returns(Val::new(id));
            match s.q.as_str() {
                "none" => dc.push(q),
                "once" => dc.push(q.once()),
                "n" => dc.push(q.n_times(s.n)),
                "atleast" => dc.push(q.at_least_times(s.n)),
                o => panic!("harness: unknown quantifier {o}"),
            }
        }
        "next" => {
            let q = UGMock::g
                .with_types::<T>()
                .next_call(&move |m| {
                    m.func(move |a: &u8, _| (mask >> *a) & 1 == 1);
                    m.pat_debug(lab, "model", line);
                })
                .returns(Val::new(id));
            match s.q.as_str() {
                "none" => dc.push(q),
                "once" => dc.push(q.once()),
                "n" => dc.push(q.n_times(s.n)),
                o => panic!("harness: unsupported quantifier {o}"),
            }
        }
        f => panic!("harness: unsupported form {f} for a generic method"),
    }
}

/// Build the clause list of a configuration through the real builder API, in leaf order.
pub fn build_clauses(leaves: &[Leaf]) -> DynClause {
    let order: Vec<usize> = (1..=leaves.len()).collect();
    build_clauses_perm(leaves, &order)
}

/// Same, but the clauses are listed in the order `perm` (1-based leaf indexes); ids and labels
/// keep referring to the original leaf index (C18: admissible reorderings change nothing).
pub fn build_clauses_perm(leaves: &[Leaf], perm: &[usize]) -> DynClause {
    let mut dc = DynClause::new();
    for &li in perm {
        let leaf = &leaves[li - 1];
        match leaf.m.as_str() {
            "g8" => add_g::<u8>(&mut dc, leaf, li),
            "g16" => add_g::<u16>(&mut dc, leaf, li),
            "r0" => add_leaf_for!(&mut dc, leaf, li, UMock::r0, r0_any, r0_ord),
            "r1" => add_leaf_for!(&mut dc, leaf, li, UMock::r1, r1_any, r1_ord),
            "r2" => add_leaf_for!(&mut dc, leaf, li, UMock::r2, r2_any, r2_ord),
            "d0" => add_leaf_for!(&mut dc, leaf, li, UMock::d0, d0_any, d0_ord),
            "d1" => add_leaf_for!(&mut dc, leaf, li, UMock::d1, d1_any, d1_ord),
            "t0" => add_leaf_for!(&mut dc, leaf, li, UMock::t0, t0_any, t0_ord),
            "b0" => add_leaf_for!(&mut dc, leaf, li, UMock::b0, b0_any, b0_ord),
            m => panic!("harness: unknown method {m}"),
        }
    }
    dc
}
