------------------------------ MODULE TestTrace -------------------------------
(***************************************************************************)
(* Trace validation of arbitrary test programs (extension, DESIGN 4.7):    *)
(* the library itself, built with the event hook H3, logs construction     *)
(* (the assembled method table), every call (matcher results of the        *)
(* selection pass, ordered slot, selected pattern, position), every        *)
(* mock-induced error and the verification.  Matchers and responses are    *)
(* opaque here; what is checked is the runtime's bookkeeping: first-match  *)
(* selection, slot ownership, positions = match counts, responder lookup,  *)
(* the fallback table, error recording and the verdict -- on the           *)
(* repository's own 127 tests.                                             *)
(***************************************************************************)
EXTENDS Builder, Json, IOUtils, SequencesExt, TLC

Rec == ndJsonDeserialize(IOEnv.TRACE)
VARIABLES ms,      \* mock id -> [strict, fns, count, ordIdx, delivered, errs]
          expect,  \* what the next event of the mock must / may be after a call: [m, must : set of kinds, may : set of kinds]
          l
tvars == <<ms, expect, l>>
ASSUME TLCSet(1, 0)
NoExpect == [m |-> 0, must |-> {}, may |-> {}]

IsEv(e) == l <= Len(Rec) /\ Rec[l].ev = e
Adv == l' = l + 1
Calm == expect.must = {}          \* no mandatory error outstanding

TReset == IsEv("reset") /\ Adv /\ Calm /\ ms' = <<>> /\ expect' = NoExpect
TNew ==
  /\ IsEv("new") /\ Adv /\ Calm
  /\ LET e == Rec[l] IN
     ms' = [k \in (DOMAIN ms) \cup {e.mock} |->
              IF k = e.mock
              THEN [strict |-> e.strict, fns |-> e.fns,
                    count |-> [t \in 1..Len(e.fns) |-> [p \in 1..Len(e.fns[t].pats) |-> 0]],
                    ordIdx |-> 0, delivered |-> {}, errs |-> 0]
              ELSE ms[k]]
  /\ expect' = NoExpect

Unmentioned(c, strict) == IF c.dflt THEN "dflt" ELSE IF c.pbd THEN "unmock" ELSE IF strict THEN "err:NoMockImplementation" ELSE "unmock"
\* prediction for a call event c on mock state s: [ok, s2, out]
OwnerWithin(f, slot) == LET S == { i \in 1..Len(f.pats) : f.pats[i].lo <= slot /\ slot < f.pats[i].hi } IN IF S = {} THEN 0 ELSE CHOOSE i \in S : TRUE
Respond(s, c, sel) ==
  LET pat == s.fns[c.tid].pats[sel]
      p   == s.count[c.tid][sel]
      s1  == [s EXCEPT !.count[c.tid][sel] = p + 1] IN
  IF c.sel # sel \/ c.pos # p THEN [ok |-> FALSE, s |-> s, out |-> "pos"]
  ELSE IF Len(pat.resp) = 0 THEN [ok |-> TRUE, s |-> s1, out |-> "err:NoOutput"]
  ELSE LET j == Lookup(pat.resp, p)  k == pat.resp[j].kind IN
       [ok |-> TRUE, s |-> IF k = "ret" THEN [s1 EXCEPT !.delivered = @ \cup {<<c.tid, sel, j>>}] ELSE s1,
        out |-> IF k = "ret" /\ <<c.tid, sel, j>> \in s.delivered THEN "ret-again" ELSE IF k = "panic" THEN "err:ExplicitPanic" ELSE k]
Predict(s, c) ==
  IF c.tid = 0 - 1 + 0 \/ c.tid < 1 THEN [ok |-> c.sel < 1 /\ c.scan = <<>>, s |-> s, out |-> Unmentioned(c, s.strict)]
  ELSE LET f == s.fns[c.tid] IN
  IF f.mode = "any"
  THEN LET n == Len(c.scan)
           shape == n <= Len(f.pats) /\ \A i \in 1..(n - 1) : ~c.scan[i]
           hit == n > 0 /\ c.scan[n] IN
       IF ~shape THEN [ok |-> FALSE, s |-> s, out |-> "scan"]
       ELSE IF hit THEN Respond(s, c, n)
       ELSE IF n < Len(f.pats) THEN [ok |-> c.sel < 1, s |-> s, out |-> "err:NoMatcherFunction"]   \* pattern n+1 has no matcher function: the scan stops with that error
       ELSE [ok |-> c.sel < 1, s |-> s, out |-> IF s.strict THEN "err:NoMatchingCallPatterns" ELSE "unmock"]
  ELSE LET s1 == [s EXCEPT !.ordIdx = @ + 1]
           o == OwnerWithin(f, s.ordIdx) IN
       IF c.slot # s.ordIdx THEN [ok |-> FALSE, s |-> s, out |-> "slot"]
       ELSE IF o = 0 THEN [ok |-> c.scan = <<>> /\ c.sel < 1, s |-> s1, out |-> "err:CallOrderNotMatched"]
       ELSE IF c.scan = <<>> THEN [ok |-> c.sel < 1, s |-> s1, out |-> "err:NoMatcherFunction"]
       ELSE IF c.scan = <<FALSE>> THEN [ok |-> c.sel < 1, s |-> s1, out |-> "err:InputsNotMatchedInCallOrder"]
       ELSE IF c.scan = <<TRUE>> THEN Respond(s1, c, o)
       ELSE [ok |-> FALSE, s |-> s, out |-> "scan"]
ErrKind(out) == CASE out = "err:NoMockImplementation" -> "NoMockImplementation" [] out = "err:NoMatchingCallPatterns" -> "NoMatchingCallPatterns"
                  [] out = "err:CallOrderNotMatched" -> "CallOrderNotMatched" [] out = "err:InputsNotMatchedInCallOrder" -> "InputsNotMatchedInCallOrder"
                  [] out = "err:NoOutput" -> "NoOutput" [] out = "err:ExplicitPanic" -> "ExplicitPanic"
                  [] out = "err:NoMatcherFunction" -> "NoMatcherFunction" [] OTHER -> "none"
TCall ==
  /\ IsEv("call") /\ Adv /\ Calm
  /\ LET c == Rec[l]  m == c.mock  r == Predict(ms[m], c) IN
       /\ m \in DOMAIN ms /\ r.ok
       /\ ms' = [ms EXCEPT ![m] = r.s]
       /\ expect' = IF ErrKind(r.out) # "none" THEN [m |-> m, must |-> {ErrKind(r.out)}, may |-> {}]
                    ELSE IF r.out = "unmock" THEN [m |-> m, must |-> {}, may |-> {"CannotUnmock"}]
                    ELSE IF r.out = "dflt" THEN [m |-> m, must |-> {}, may |-> {"NoDefaultImpl"}]
                    ELSE IF r.out = "ret-again" THEN [m |-> m, must |-> {}, may |-> {"CannotReturnValueMoreThanOnce"}]
                    ELSE IF r.out = "answer" THEN [m |-> m, must |-> {}, may |-> {"NotAnswered"}]
                    ELSE NoExpect
TErr ==
  /\ IsEv("err") /\ Adv
  /\ LET e == Rec[l] IN
       /\ e.mock = expect.m /\ e.kind \in (expect.must \cup expect.may)
       /\ ms' = [ms EXCEPT ![e.mock].errs = @ + 1]
  /\ expect' = NoExpect
Sat(pat, c) == CASE pat.ex = "exact" -> c = pat.min [] pat.ex = "atleast" -> c >= pat.min [] OTHER -> c >= pat.min + 1
RECURSIVE SumTo(_, _)
SumTo(f, n) == IF n = 0 THEN 0 ELSE f[n] + SumTo(f, n - 1)
TVerify ==
  /\ IsEv("verify") /\ Adv /\ Calm
  /\ LET v == Rec[l]  s == ms[v.mock] IN
       IF s.errs > 0 THEN v.reasons = s.errs
       ELSE /\ v.reasons = 0
            /\ v.unmet = Cardinality({ x \in UNION { { <<t, p>> : p \in 1..Len(s.fns[t].pats) } : t \in 1..Len(s.fns) } : ~Sat(s.fns[x[1]].pats[x[2]], s.count[x[1]][x[2]]) })
            /\ v.never = Cardinality({ t \in 1..Len(s.fns) : SumTo(s.count[t], Len(s.fns[t].pats)) = 0 })
  /\ UNCHANGED ms /\ expect' = NoExpect
TNext == TReset \/ TNew \/ TCall \/ TErr \/ TVerify
TSpec == (ms = <<>> /\ expect = NoExpect /\ l = 1) /\ [][TNext]_tvars
Track == IF l > TLCGet(1) THEN TLCSet(1, l) ELSE TRUE
Accepted == IF TLCGet(1) = Len(Rec) + 1 THEN TRUE ELSE PrintT(<<"UNMATCHED", TLCGet(1), ToJson(Rec[TLCGet(1)])>>) /\ FALSE
=============================================================================
