// Common prelude of generated programs (copied next to the generated main.rs).
#![allow(dead_code, unused_imports, unused_variables, non_camel_case_types, non_snake_case, clippy::all)]
use std::panic::{catch_unwind, AssertUnwindSafe};
use std::sync::atomic::{AtomicU32, Ordering::SeqCst};
use std::task::Poll;

pub const NIDS: usize = 4096;
#[allow(clippy::declare_interior_mutable_const)]
const Z: AtomicU32 = AtomicU32::new(0);
pub static CLONES: [AtomicU32; NIDS] = [Z; NIDS];
pub static DROPS: [AtomicU32; NIDS] = [Z; NIDS];

#[derive(Debug, PartialEq, Eq)]
pub struct Val { pub id: u32, pub gen: u32 }
impl Val { pub fn new(id: u32) -> Val { Val { id, gen: 0 } } }
impl Default for Val { fn default() -> Self { Val::new(900) } }
impl Clone for Val { fn clone(&self) -> Self { CLONES[self.id as usize % NIDS].fetch_add(1, SeqCst); Val { id: self.id, gen: self.gen + 1 } } }
impl Drop for Val { fn drop(&mut self) { DROPS[self.id as usize % NIDS].fetch_add(1, SeqCst); } }
#[derive(Debug, PartialEq, Eq)]
pub struct Tok { pub id: u32 }
impl Tok { pub fn new(id: u32) -> Tok { Tok { id } } }
impl Drop for Tok { fn drop(&mut self) { DROPS[self.id as usize % NIDS].fetch_add(1, SeqCst); } }
/// no Debug on purpose
pub struct NoDbg(pub u32);
#[derive(Debug, PartialEq, Clone)]
pub struct D(pub u32);

pub struct UserPanic(pub u32);

/// canonical rendering of returned values; `addrs` collects the addresses of borrowed leaves
pub trait Show { fn show(&self) -> String; fn addrs(&self, out: &mut Vec<usize>) {} }
// g0 = the configured value itself (moved), g1 = a copy of it, however many clone hops away
impl Show for Val { fn show(&self) -> String { format!("O{}g{}", self.id, self.gen.min(1)) } }
impl Show for Tok { fn show(&self) -> String { format!("T{}", self.id) } }
impl Show for str { fn show(&self) -> String { format!("{self}") } }
impl Show for String { fn show(&self) -> String { format!("{self}") } }
impl Show for u8 { fn show(&self) -> String { format!("{self}") } }
impl Show for u16 { fn show(&self) -> String { format!("{self}") } }
impl Show for u32 { fn show(&self) -> String { format!("{self}") } }
impl<T: Show> Show for [T] { fn show(&self) -> String { format!("[{}]", self.iter().map(|x| x.show()).collect::<Vec<_>>().join(",")) } }
impl<T: Show + ?Sized> Show for &mut T { fn show(&self) -> String { format!("&mut {}", (**self).show()) } }
impl Show for i32 { fn show(&self) -> String { format!("{self}") } }
impl Show for () { fn show(&self) -> String { "()".into() } }
impl<'x> Show for dyn std::fmt::Display + 'x { fn show(&self) -> String { format!("{self}") } }
impl<'x> Show for Box<dyn std::fmt::Display + 'x> { fn show(&self) -> String { format!("box {self}") } }
impl Show for unimock::Impossible { fn show(&self) -> String { "Impossible".into() } }
impl<T: Show + ?Sized> Show for &T {
    fn show(&self) -> String { format!("&{}", (**self).show()) }
    fn addrs(&self, out: &mut Vec<usize>) { out.push(*self as *const T as *const u8 as usize); }
}
impl<T: Show> Show for Option<T> {
    fn show(&self) -> String { match self { Some(x) => format!("Some({})", x.show()), None => "None".into() } }
    fn addrs(&self, out: &mut Vec<usize>) { if let Some(x) = self { x.addrs(out) } }
}
impl<T: Show, E: Show> Show for Result<T, E> {
    fn show(&self) -> String { match self { Ok(x) => format!("Ok({})", x.show()), Err(e) => format!("Err({})", e.show()) } }
    fn addrs(&self, out: &mut Vec<usize>) { match self { Ok(x) => x.addrs(out), Err(e) => e.addrs(out) } }
}
impl<T: Show> Show for Poll<T> {
    fn show(&self) -> String { match self { Poll::Ready(x) => format!("Ready({})", x.show()), Poll::Pending => "Pending".into() } }
    fn addrs(&self, out: &mut Vec<usize>) { if let Poll::Ready(x) = self { x.addrs(out) } }
}
impl<T: Show> Show for Vec<T> {
    fn show(&self) -> String { format!("[{}]", self.iter().map(|x| x.show()).collect::<Vec<_>>().join(",")) }
    fn addrs(&self, out: &mut Vec<usize>) { for x in self { x.addrs(out) } }
}
impl<A: Show> Show for (A,) {
    fn show(&self) -> String { format!("({})", self.0.show()) }
    fn addrs(&self, out: &mut Vec<usize>) { self.0.addrs(out); }
}
impl<A: Show, B: Show> Show for (A, B) {
    fn show(&self) -> String { format!("({},{})", self.0.show(), self.1.show()) }
    fn addrs(&self, out: &mut Vec<usize>) { self.0.addrs(out); self.1.addrs(out); }
}
impl<A: Show, B: Show, C: Show> Show for (A, B, C) {
    fn show(&self) -> String { format!("({},{},{})", self.0.show(), self.1.show(), self.2.show()) }
    fn addrs(&self, out: &mut Vec<usize>) { self.0.addrs(out); self.1.addrs(out); self.2.addrs(out); }
}
impl<A: Show, B: Show, C: Show, D: Show> Show for (A, B, C, D) {
    fn show(&self) -> String { format!("({},{},{},{})", self.0.show(), self.1.show(), self.2.show(), self.3.show()) }
    fn addrs(&self, out: &mut Vec<usize>) { self.0.addrs(out); self.1.addrs(out); self.2.addrs(out); self.3.addrs(out); }
}

/// rendering without method auto-deref: shows exactly the referent of `x`
pub fn sh<T: Show + ?Sized>(x: &T) -> String { x.show() }

/// run f; Ok(rendering) or Err(panic message)
pub fn observe<R>(f: impl FnOnce() -> R, render: impl FnOnce(&R) -> String) -> Result<String, String> {
    match catch_unwind(AssertUnwindSafe(f)) {
        Ok(r) => Ok(render(&r)),
        Err(p) => Err(panic_text(p)),
    }
}
pub fn panic_text(p: Box<dyn std::any::Any + Send>) -> String {
    if let Some(s) = p.downcast_ref::<String>() { s.clone() }
    else if let Some(s) = p.downcast_ref::<&'static str>() { s.to_string() }
    else if p.downcast_ref::<UserPanic>().is_some() { "<<user panic>>".to_string() }
    else { "<<non-string panic>>".to_string() }
}
pub fn jstr(s: &str) -> String { serde_json::to_string(s).unwrap() }
pub fn emit(case: &str, fields: Vec<(&str, String)>) {
    let body: Vec<String> = fields.into_iter().map(|(k, v)| format!("{}:{}", jstr(k), v)).collect();
    println!("{{\"case\":{},{}}}", jstr(case), body.join(","));
}
pub fn res_json(r: &Result<String, String>) -> String {
    match r { Ok(s) => format!("{{\"ok\":{}}}", jstr(s)), Err(e) => format!("{{\"panic\":{}}}", jstr(e)) }
}

thread_local! {
    pub static MLOG: std::cell::RefCell<Vec<Vec<String>>> = const { std::cell::RefCell::new(Vec::new()) };
    pub static ALOG: std::cell::RefCell<Vec<Vec<String>>> = const { std::cell::RefCell::new(Vec::new()) };
}
/// called from matcher guards: records what the matcher saw, accepts
pub fn rec_m(v: Vec<String>) -> bool { MLOG.with(|l| l.borrow_mut().push(v)); true }
/// called from answer / real functions
pub fn rec_a(v: Vec<String>) { ALOG.with(|l| l.borrow_mut().push(v)); }
pub fn take_m() -> Vec<Vec<String>> { MLOG.with(|l| std::mem::take(&mut *l.borrow_mut())) }
pub fn take_a() -> Vec<Vec<String>> { ALOG.with(|l| std::mem::take(&mut *l.borrow_mut())) }
pub fn log_len() -> usize { MLOG.with(|l| l.borrow().len()) + ALOG.with(|l| l.borrow().len()) }
pub fn jlog(v: &Vec<Vec<String>>) -> String { serde_json::to_string(v).unwrap() }
pub fn jlist(v: &Vec<String>) -> String { serde_json::to_string(v).unwrap() }

/// minimal executor: the futures of mocked methods never suspend
pub fn block_on<F: std::future::Future>(f: F) -> F::Output {
    use std::task::{Context, Poll as P, Wake, Waker};
    struct W;
    impl Wake for W { fn wake(self: std::sync::Arc<Self>) {} }
    let waker = Waker::from(std::sync::Arc::new(W));
    let mut cx = Context::from_waker(&waker);
    let mut f = std::pin::pin!(f);
    for _ in 0..1000 {
        if let P::Ready(v) = f.as_mut().poll(&mut cx) { return v; }
    }
    panic!("future did not complete");
}
